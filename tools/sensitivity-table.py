#!/usr/bin/env python3
# Prints a markdown table of the seeded changes under /verif/seeded and which check reports them.
import json,glob,os
rows=[]
for f in sorted(glob.glob('/verif/seeded/*/meta.json')):
    m=json.load(open(f))
    notes=''
    p=os.path.join(os.path.dirname(f),'notes.md')
    if os.path.exists(p):
        for l in open(p):
            l=l.strip()
            if l.startswith('#') and not l.lower().startswith('## '):
                notes=l.lstrip('# ').strip(); break
    det=[]
    for t in m['trials']:
        if t['exit']==1: det.append('%s (%s)'%(t['check'], ', '.join(t['classes'][:2])))
    rows.append((m['id'], m['property'], notes[:90], '; '.join(det) if det else 'not reported'))
print('| id | property | change | reported by (verdict classes) |')
print('|---|---|---|---|')
for r in rows: print('| %s | %s | %s | %s |'%r)
