#!/bin/sh
# usage: tools/try-mutant.sh <dir with patch.diff and demo files> <PROPERTY> [tier]
# Confirms, in a scratch worktree of /repo, that the change (1) builds, (2) keeps the
# repository's test suite green, (3) makes the demonstration fail while the unchanged
# tree passes it; then runs the property's check against the changed tree.
set -u
D=$(cd "$1" && pwd); P=$2; TIER=${3:-quick}
export GOFLAGS=-mod=mod GOPROXY=off GOSUMDB=off GOTOOLCHAIN=local
WT=$(mktemp -d /tmp/try-mutant-XXXXXX)
git -C /repo worktree add -q --detach "$WT" HEAD || exit 2
cleanup() { git -C /repo worktree remove --force "$WT" 2>/dev/null; rm -rf "$WT"; }
trap cleanup EXIT
place_demo() {
  for f in "$D"/*_test.go "$D"/*.go; do
    [ -f "$f" ] || continue
    pk=$(sed -n 's/^package \([A-Za-z0-9_]*\).*/\1/p' "$f" | head -1); pk=${pk%_test}
    case "$pk" in
      tabula) dir=. ;;
      main) dir=zzdemo; mkdir -p "$WT/zzdemo" ;;
      filters) dir=internal/filters ;;
      *) dir=$pk ;;
    esac
    cp "$f" "$WT/$dir/"
    echo "$dir"
  done | sort -u
}
DIRS=$(place_demo)
run_demo() {
  rc=0
  for d in $DIRS; do
    if [ "$d" = zzdemo ]; then (cd "$WT" && go run ./zzdemo >/dev/null 2>&1) || rc=1
    else
      names=$(cat "$D"/*_test.go 2>/dev/null | sed -n 's/^func \(Test[A-Za-z0-9_]*\)(.*/\1/p' | sort -u | paste -sd'|')
      [ -z "$names" ] && names=Demo
      (cd "$WT" && go test -vet=off -count=1 -run "^($names)\$" ./$d/ >/dev/null 2>&1) || rc=1; fi
  done
  return $rc
}
run_demo; BASE=$?
[ $BASE -eq 0 ] && echo "demo on unchanged tree: passes" || echo "demo on unchanged tree: FAILS (bad demonstration?)"
(cd "$WT" && git apply "$D/patch.diff") || { echo "patch does not apply"; exit 2; }
(cd "$WT" && go build ./... ) && echo "build with change: ok" || { echo "build with change: FAILS"; exit 2; }
run_demo; CH=$?
[ $CH -ne 0 ] && echo "demo with change: fails (as intended)" || echo "demo with change: PASSES (change not demonstrated)"
# the repository's own suite, without the demonstration files
for d in $DIRS; do for f in "$D"/*.go; do rm -f "$WT/$d/$(basename $f)"; done; done; rm -rf "$WT/zzdemo"
SUITE=$( (cd "$WT" && go test -vet=off -count=1 ./... 2>&1) | grep -c '^FAIL\|^--- FAIL' )
echo "existing test suite with change: $SUITE failing lines"
VERIF_REPO="$WT" VERIF_EVIDENCE_DIR="$WT/zz-evidence" VERIF_REPLAY_DIR="$WT/zz-replays" /verif/bin/verif check "$P" --tier "$TIER" > "$WT/zz-check.log" 2>&1; RC=$?
echo "verif check $P ($TIER): exit $RC"
grep -A3 '^VIOLATION' "$WT/zz-check.log" | cut -c1-300 | head -12
tail -1 "$WT/zz-check.log" | cut -c1-200
