#!/bin/sh
# usage: tools/archive-mutant.sh <agent output dir> <seeded id> <PROPERTY> [other checks...]
# Copies patch.diff, demonstration and notes into /verif/seeded/<id>/ and records a trial
# (tools/try-mutant.sh) for the property's check and any other named checks.
D=$1; ID=$2; P=$3; shift 3
T=/verif/seeded/$ID
mkdir -p $T
cp $D/patch.diff $T/; cp $D/*.go $T/ 2>/dev/null; cp $D/notes.md $T/ 2>/dev/null
/verif/tools/try-mutant.sh $D $P > $T/trial-$P.txt 2>&1
for Q in "$@"; do /verif/tools/try-mutant.sh $D $Q > $T/trial-$Q.txt 2>&1; done
python3 - "$T" "$ID" "$P" "$@" <<'PY'
import sys,json,os,re
T,ID,P=sys.argv[1:4]; others=sys.argv[4:]
def parse(f):
    t=open(f).read()
    m=re.search(r'verif check (\S+) \((\w+)\): exit (\d+)',t)
    cls=re.findall(r'class: (.*)',t)
    return {"check":m.group(1) if m else None,"exit":int(m.group(3)) if m else None,"classes":sorted(set(cls))[:6],
            "demo_unchanged_passes":"demo on unchanged tree: passes" in t,"demo_with_change_fails":"demo with change: fails" in t,
            "build_ok":"build with change: ok" in t,"suite_failing_lines":int(re.search(r'test suite with change: (\d+)',t).group(1)) if re.search(r'test suite with change: (\d+)',t) else None}
notes=open(os.path.join(T,'notes.md')).read() if os.path.exists(os.path.join(T,'notes.md')) else ''
needs=''
m=re.search(r'(?is)##\s*What it needs[^\n]*\n(.*?)(\n##|\Z)',notes)
if m: needs=' '.join(m.group(1).split())[:900]
meta={"id":ID,"property":P,"source":"independent sub-agent given only the property text and a scratch worktree",
      "needs_to_manifest":needs,"what_i_ran":"tools/try-mutant.sh (scratch worktree of /repo: demo on unchanged tree, apply patch, build, demo, repository test suite, bin/verif check)",
      "trials":[parse(os.path.join(T,'trial-%s.txt'%q)) for q in [P]+others]}
meta["detected"]=any(t["exit"]==1 for t in meta["trials"])
json.dump(meta,open(os.path.join(T,'meta.json'),'w'),indent=1)
print(ID, [ (t["check"],t["exit"]) for t in meta["trials"]], "valid" if (meta["trials"][0]["demo_unchanged_passes"] and meta["trials"][0]["demo_with_change_fails"] and meta["trials"][0]["suite_failing_lines"]==0) else "INVALID")
PY
