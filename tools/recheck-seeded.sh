#!/bin/sh
# usage: tools/recheck-seeded.sh [id-prefix]
# Re-runs, with the machinery as it is now, the check(s) that reported each change kept
# under /verif/seeded against a scratch worktree of /repo with that change applied. One row
# per change is kept in /verif/seeded/.recheck-rows/<id> (an existing row is not redone, so
# several instances with different prefixes can share the work); when run without a prefix
# the rows are assembled into /verif/seeded/RECHECK.md at the end. Remove the rows
# directory to start over.
export GOFLAGS=-mod=mod GOPROXY=off GOSUMDB=off GOTOOLCHAIN=local
ROWS=/verif/seeded/.recheck-rows
mkdir -p $ROWS
for d in /verif/seeded/${1:-}*/; do
  id=$(basename "$d"); [ -f "$d/meta.json" ] || continue
  [ -f "$ROWS/$id" ] && continue
  : > "$ROWS/$id"
  P=$(python3 -c "import json;print(json.load(open('$d/meta.json'))['property'])")
  checks=$(python3 -c "import json;m=json.load(open('$d/meta.json'));print(' '.join(sorted({t['check'] for t in m['trials'] if t.get('exit')==1 and t.get('check')}) or [m['property']]))")
  WT=$(mktemp -d /tmp/recheck-wt-XXXXXX)
  git -C /repo worktree add -q --detach "$WT" HEAD || { echo "| $id | $P | worktree failed |" > "$ROWS/$id"; continue; }
  if (cd "$WT" && git apply "$d/patch.diff" 2>/dev/null || git apply --3way "$d/patch.diff" 2>/dev/null) && (cd "$WT" && go build ./... 2>/dev/null); then
    res=""
    for Q in $checks; do
      VERIF_REPO="$WT" VERIF_EVIDENCE_DIR="$WT/zz-ev" VERIF_REPLAY_DIR="$WT/zz-rp" VERIF_MAX_REPORT=1 /verif/bin/verif check "$Q" --tier quick > "$WT/zz.log" 2>&1; rc=$?
      cls=$(grep -m1 'class:' "$WT/zz.log" | sed 's/.*class: //' | cut -c1-60)
      res="$res $Q:exit$rc($cls)"
    done
    echo "| $id | $P |$res |" > "$ROWS/$id"
  else
    echo "| $id | $P | patch no longer applies to the current tree (superseded by a later fix) |" > "$ROWS/$id"
  fi
  git -C /repo worktree remove --force "$WT" 2>/dev/null; rm -rf "$WT"
done
if [ -z "${1:-}" ]; then
  OUT=/verif/seeded/RECHECK.md
  { echo "# Re-check of the seeded changes with the current machinery ($(date -u +%Y-%m-%dT%H:%MZ), /repo $(git -C /repo log --format=%h -n1), /verif $(git -C /verif log --format=%h -n1))"; echo; echo "| id | property | check: exit code (first verdict class) |"; echo "|---|---|---|"; cat $ROWS/*; } > $OUT
  grep -c 'exit1' $OUT
fi
