#!/bin/sh
# Build the verification framework offline from files on disk only.
set -e
cd "$(dirname "$0")"
export GOFLAGS=-mod=mod GOPROXY=off GOSUMDB=off GOTOOLCHAIN=local CGO_ENABLED=0
mkdir -p bin evidence replays
go build -trimpath -o bin/instrument ./cmd/instrument
go build -trimpath -o bin/verif ./cmd/verif
echo "setup ok"
