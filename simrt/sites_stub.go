package zzsimrt

// SiteEntry describes one instrumentation site. The table itself (SiteTab,
// VarTab) is generated into zz_sites.go by the runner after instrumenting.
type SiteEntry struct {
	Kind string // func, loop, range, maprange, svar, make
	Pkg  string
	Func string
	Pos  string
	Var  string
}

func isLoopSite(site int32) bool {
	if int(site) >= len(SiteTab) || site < 0 {
		return false
	}
	switch SiteTab[site].Kind {
	case "loop", "range", "maprange":
		return true
	}
	return false
}

// SiteName renders a site for reports: "pkg.Func (file:line)".
func SiteName(site int32) string {
	if int(site) >= len(SiteTab) || site <= 0 {
		return "?"
	}
	e := SiteTab[site]
	return e.Pkg + "." + e.Func + " (" + e.Pos + ")"
}

// SiteFunc renders only the function, which is what verdict classes use (stable
// under edits that move lines).
func SiteFunc(site int32) string {
	if int(site) >= len(SiteTab) || site <= 0 {
		return "?"
	}
	e := SiteTab[site]
	return e.Pkg + "." + e.Func
}
