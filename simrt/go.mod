// Ignored by the parent module; copied (without this file) into the scratch
// module as github.com/tsawler/tabula/zzsimrt.
module zzignore2

go 1.18
