//go:build !go1.24

package zzsimrt

const classicMaps = true
