package zzsimrt

import (
	"fmt"
	"time"
)

// Quantum is one entry of a schedule: run Task for N points, then choose again.
// With SOnly, only S-points (accesses to package-level variables) count.
type Quantum struct {
	Task  int  `json:"t"`
	N     int  `json:"n"`
	SOnly bool `json:"s,omitempty"`
}

// SchedCfg configures one scheduled run.
type SchedCfg struct {
	Plan        []Quantum // consumed first (replay, or a hand-made schedule)
	Seed        uint64    // after the plan: draw quanta from this seed; 0 = run lowest-id task to completion
	MeanQuantum int       // mean length of a drawn quantum, in points
	SOnlyPct    int       // percentage of drawn quanta that count S-points only
	MaxSwitches int       // stop drawing after this many context switches
	RaceRule    bool      // evaluate the lock-set race rule
	WallLimit   time.Duration
}

// Race is one hit of the race rule.
type Race struct {
	Var    int32 `json:"var"`
	SiteA  int32 `json:"site_a"`
	SiteB  int32 `json:"site_b"`
	TaskA  int   `json:"task_a"`
	TaskB  int   `json:"task_b"`
	WriteA bool  `json:"write_a"`
	WriteB bool  `json:"write_b"`
}

type access struct {
	task  int
	site  int32
	write bool
	prot  bool // made while the task held a lock
}

type varState struct {
	acc   []access // at most one read and one write per task
	raced bool
}

// Sched is the cooperative scheduler of one run.
type Sched struct {
	cfg      SchedCfg
	tasks    []*Task
	planIdx  int
	q        Quantum
	left     int
	used     int
	alive    int
	rng      rng
	doneCh   chan struct{}
	vars     map[int32]*varState
	drawing  bool
	Realised []Quantum
	Switches int
	Trace    uint64 // hash of (from, to, site) at every context switch
	Races    []Race
	SPoints  int64
	Points   int64
	TimedOut bool
}

// RunScheduled runs bodies[i] as task tasks[i] under the schedule described by
// cfg and returns when all have finished. Bodies must not let panics escape.
func RunScheduled(cfg SchedCfg, tasks []*Task, bodies []func()) *Sched {
	if cfg.MeanQuantum <= 0 {
		cfg.MeanQuantum = 50
	}
	s := &Sched{cfg: cfg, tasks: tasks, alive: len(tasks), doneCh: make(chan struct{}),
		vars: map[int32]*varState{}, rng: rng{cfg.Seed}}
	sched = s
	for i := range tasks {
		t, body := tasks[i], bodies[i]
		go func() {
			<-t.ch
			body()
			s.finish(t)
		}()
	}
	first := s.pickNext()
	cur = first
	first.ch <- struct{}{}
	if cfg.WallLimit <= 0 {
		cfg.WallLimit = 120 * time.Second
	}
	select {
	case <-s.doneCh:
	case <-time.After(cfg.WallLimit):
		// backstop only: a loop in uninstrumented code, or a task blocked on a
		// real synchronisation primitive while another holds the baton.
		s.TimedOut = true
	}
	sched = nil
	cur = nil
	return s
}

func (s *Sched) closeQuantum(finished bool) {
	n := s.used
	if finished {
		n++ // so that a replay does not pre-empt the task just before it finishes
	}
	if n <= 0 {
		return
	}
	if k := len(s.Realised); k > 0 && s.Realised[k-1].Task == s.q.Task && s.Realised[k-1].SOnly == s.q.SOnly {
		s.Realised[k-1].N += n
	} else {
		s.Realised = append(s.Realised, Quantum{Task: s.q.Task, N: n, SOnly: s.q.SOnly})
	}
	s.used = 0
}

// pickNext selects the next quantum whose task is still alive.
func (s *Sched) pickNext() *Task {
	for s.planIdx < len(s.cfg.Plan) {
		q := s.cfg.Plan[s.planIdx]
		s.planIdx++
		if q.N <= 0 || q.Task < 0 || q.Task >= len(s.tasks) || s.tasks[q.Task].done {
			continue
		}
		s.q, s.left, s.used = q, q.N, 0
		return s.tasks[q.Task]
	}
	if s.cfg.Seed != 0 && s.Switches < s.cfg.MaxSwitches {
		// draw: uniformly among alive tasks
		k := int(s.rng.next() % uint64(s.alive))
		var t *Task
		for _, c := range s.tasks {
			if c.done {
				continue
			}
			if k == 0 {
				t = c
				break
			}
			k--
		}
		n := 1 + int(s.rng.next()%uint64(2*s.cfg.MeanQuantum))
		so := int(s.rng.next()%100) < s.cfg.SOnlyPct
		if so {
			n = 1 + int(s.rng.next()%4)
		}
		s.q, s.left, s.used = Quantum{Task: t.ID, N: n, SOnly: so}, n, 0
		return t
	}
	for _, c := range s.tasks {
		if !c.done {
			s.q, s.left, s.used = Quantum{Task: c.ID, N: 1 << 60}, 1<<60, 0
			return c
		}
	}
	return nil
}

func (s *Sched) finish(t *Task) {
	t.done = true
	s.alive--
	s.closeQuantum(true)
	if s.alive == 0 {
		cur = nil
		close(s.doneCh)
		return
	}
	next := s.pickNext()
	cur = next
	next.ch <- struct{}{}
}

func (s *Sched) point(t *Task, site int32, isS bool, varID int32, write bool) {
	s.Points++
	if isS {
		s.SPoints++
		if s.cfg.RaceRule && varID > 0 {
			s.raceCheck(t, site, varID, write)
		}
	}
	if t.crit > 0 {
		return // inside a critical section: mutual exclusion, no switch
	}
	if s.q.SOnly && !isS {
		return
	}
	s.used++
	s.left--
	if s.left > 0 {
		return
	}
	s.closeQuantum(false)
	next := s.pickNext()
	if next == t {
		return
	}
	s.Switches++
	s.Trace = mix(s.Trace ^ uint64(t.ID)<<48 ^ uint64(next.ID)<<40 ^ uint64(site))
	cur = next
	next.ch <- struct{}{}
	<-t.ch
}

// raceCheck: accesses by two different tasks are never ordered by anything but a
// lock; a pair with at least one write is a data race unless both were made under
// a lock (lock identity is not tracked: two different locks count as one).
func (s *Sched) raceCheck(t *Task, site int32, varID int32, write bool) {
	vs := s.vars[varID]
	if vs == nil {
		vs = &varState{}
		s.vars[varID] = vs
	}
	have := false
	prot := t.crit > 0
	for _, a := range vs.acc {
		if a.task == t.ID {
			if a.write == write && a.prot == prot {
				have = true
			}
			continue
		}
		if (a.write || write) && !(a.prot && prot) && !vs.raced {
			vs.raced = true
			s.Races = append(s.Races, Race{Var: varID, SiteA: a.site, SiteB: site, TaskA: a.task, TaskB: t.ID,
				WriteA: a.write, WriteB: write})
		}
	}
	if !have {
		vs.acc = append(vs.acc, access{task: t.ID, site: site, write: write, prot: prot})
	}
}

// VarName renders a package-level variable id.
func VarName(id int32) string {
	if int(id) >= len(VarTab) || id <= 0 {
		return fmt.Sprintf("var#%d", id)
	}
	return VarTab[id]
}
