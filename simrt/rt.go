// Package zzsimrt is the simulator runtime that the instrumented copy of tabula
// calls into. It is copied into the scratch module at check time; nothing in
// /repo refers to it.
//
// Everything here is deterministic: no clock, no global PRNG, no map ranges on
// paths that influence control flow. Exactly one task runs at any moment (baton
// passing), so the package-level state below needs no locking.
package zzsimrt

import (
	"fmt"
	"runtime"
	"sort"
)

// Abort is the panic value used to cut an operation short (step budget,
// allocation guard). The library contains no recover, so it always reaches the
// operation boundary in the harness.
type Abort struct {
	Kind   string // "steps" | "alloc"
	Site   int32  // hot loop site (steps) or make site (alloc)
	Detail string
}

func (a *Abort) Error() string { return fmt.Sprintf("zzsimrt abort %s site=%d %s", a.Kind, a.Site, a.Detail) }

// Task is one caller-level operation sequence.
type Task struct {
	ID      int
	Steps   int64 // P-points executed by this task in the current operation
	Total   int64 // P-points executed by this task overall
	Budget  int64 // abort the current operation when Steps exceeds it (0 = unlimited)
	MapSeed uint64
	ch      chan struct{}
	done    bool
	visits  map[int32]uint32 // per map-range site: number of Keys calls so far
	// hot-loop attribution after the budget was exceeded
	over     int
	overHits map[int32]int
	// set while the task is parked in the scheduler
	parked bool
	memHit bool
	allocd int64 // bytes requested through guarded make calls since the last heap check
	// crit > 0: the task holds a lock or runs inside sync.Once.Do; it is not parked
	crit int
}

// CritEnter is inserted before every Lock / RLock statement and around Once.Do.
func CritEnter() {
	if t := cur; t != nil {
		t.crit++
	}
}

// CritExit is inserted after every Unlock / RUnlock statement (for a deferred
// Unlock: deferred just before it, so that it runs just after it).
func CritExit() {
	if t := cur; t != nil && t.crit > 0 {
		t.crit--
	}
}

var (
	cur   *Task  // the task that holds the baton (nil: not simulating)
	sched *Sched // non-nil while a scheduled run is in progress

	// Hits counts P/S/Keys/A calls per site (reach probes). Sized by Configure.
	Hits []uint32

	// AllocLimit is the largest slice allocation (bytes) the guard lets through.
	AllocLimit int64 = 256 << 20

	// HeapLimit: when the live heap passes this during an operation on inputs of
	// at most a few hundred KiB, the operation is exhausting memory. Checked
	// every 2^20 steps (reading memory statistics is not free).
	HeapLimit uint64 = 1536 << 20

	// DefaultMapOrder is used when no task is current (package init, the
	// repository's own tests on the instrumented copy): 0 native, 1 ascending,
	// 2 descending.
	DefaultMapOrder int
)

const overWindow = 20000

// Configure sizes the hit table.
func Configure(numSites int) {
	Hits = make([]uint32, numSites+2)
}

// NewTask creates a task; it becomes current with Enter.
func NewTask(id int, mapSeed uint64) *Task {
	return &Task{ID: id, MapSeed: mapSeed, ch: make(chan struct{}, 1), visits: map[int32]uint32{}}
}

// Enter makes t the current task (single-task use). Leave undoes it.
func Enter(t *Task) { cur = t }
func Leave()        { cur = nil }

// Current returns the running task.
func Current() *Task { return cur }

// BeginOp resets the per-operation step counter and sets the budget.
func (t *Task) BeginOp(budget int64) {
	t.Steps = 0
	t.Budget = budget
	t.over = 0
	t.overHits = nil
	t.memHit = false
	t.allocd = 0
}

// P is called at every function entry and loop iteration of the code under test.
func P(site int32) {
	t := cur
	if t == nil {
		return
	}
	t.Steps++
	t.Total++
	if int(site) < len(Hits) {
		Hits[site]++
	}
	if t.Budget > 0 && t.Steps&0xFFFFF == 0 && !t.memHit {
		var ms runtime.MemStats
		runtime.ReadMemStats(&ms)
		if ms.HeapAlloc > HeapLimit {
			// garbage from earlier operations must not count: collect, then look at
			// what is really live (this keeps the verdict a function of the operation)
			runtime.GC()
			runtime.ReadMemStats(&ms)
			if ms.HeapAlloc > HeapLimit {
				t.memHit = true
				t.Budget = t.Steps - 1 // attribute the hot loop, then abort
			}
		}
	}
	if t.Budget > 0 && t.Steps > t.Budget {
		t.overBudget(site)
	}
	if sched != nil {
		sched.point(t, site, false, 0, false)
	}
}

func (t *Task) overBudget(site int32) {
	if t.overHits == nil {
		t.overHits = map[int32]int{}
	}
	if isLoopSite(site) {
		t.overHits[site]++
	}
	t.over++
	if t.over < overWindow {
		return
	}
	// hottest loop site in the window, ties broken by site id
	best, bestN := int32(0), -1
	ids := make([]int, 0, len(t.overHits))
	for id := range t.overHits {
		ids = append(ids, int(id))
	}
	sort.Ints(ids)
	for _, id := range ids {
		if n := t.overHits[int32(id)]; n > bestN {
			best, bestN = int32(id), n
		}
	}
	if bestN < 0 {
		best = site // pure recursion: no loop site seen
	}
	steps := t.Steps
	t.Budget = 0 // let deferred code run freely while unwinding
	if t.memHit {
		panic(&Abort{Kind: "mem", Site: best, Detail: fmt.Sprintf("live heap above %d MiB after %d steps", HeapLimit>>20, steps)})
	}
	panic(&Abort{Kind: "steps", Site: best, Detail: fmt.Sprintf("no return after %d steps", steps)})
}

// T is called between statements: a scheduling point only (no step is counted).
func T(site int32) {
	if sched == nil {
		return
	}
	if t := cur; t != nil {
		sched.point(t, site, false, 0, false)
	}
}

// S is called before every statement that touches a package-level variable.
func S(site int32, varID int32, write int) {
	t := cur
	if t == nil {
		return
	}
	if int(site) < len(Hits) {
		Hits[site]++
	}
	if sched != nil {
		sched.point(t, site, true, varID, write != 0)
	}
}

// Integer is the constraint for make() size arguments.
type Integer interface {
	~int | ~int8 | ~int16 | ~int32 | ~int64 | ~uint | ~uint8 | ~uint16 | ~uint32 | ~uint64 | ~uintptr
}

// A guards a slice allocation whose size is not a constant.
func A[N Integer](site int32, n N, elem int64) N {
	t := cur
	if t == nil {
		return n
	}
	if int(site) < len(Hits) {
		Hits[site]++
	}
	if n > 0 {
		v := int64(n)
		if v < 0 || v > AllocLimit/elem {
			t.Budget = 0
			panic(&Abort{Kind: "alloc", Site: site, Detail: fmt.Sprintf("make of %d elements x %d bytes", uint64(n), elem)})
		}
		// many allocations that are each below the limit: look at the live heap every
		// 256 MiB requested (steps alone do not see memory that is filled by copying)
		t.allocd += v * elem
		if t.Budget > 0 && t.allocd >= 256<<20 && !t.memHit {
			t.allocd = 0
			var ms runtime.MemStats
			runtime.ReadMemStats(&ms)
			if ms.HeapAlloc > HeapLimit {
				runtime.GC()
				runtime.ReadMemStats(&ms)
				if ms.HeapAlloc > HeapLimit {
					t.memHit = true
					t.Budget = 0
					panic(&Abort{Kind: "mem", Site: site, Detail: fmt.Sprintf("live heap %d MiB after %d-byte allocations at this site", ms.HeapAlloc>>20, v*elem)})
				}
			}
		}
	}
	return n
}
