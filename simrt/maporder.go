package zzsimrt

import (
	"fmt"
	"reflect"
	"sort"
	"unsafe"
)

// Keys returns the keys of m in the order the simulator chose for this visit of
// this range statement. The order is a function of (task map seed, task id,
// site, visit number) only.
//
// Orders are restricted to what the Go 1.23 runtime can produce: a map that
// lives in a single bucket (B == 0, at most 8 entries) is iterated by the
// runtime starting at a random slot and wrapping, i.e. in a rotation of its slot
// order; we take the native order, normalise the rotation (smallest key first)
// and rotate by a seeded amount. Any larger map is iterated in an order that
// depends on the per-map hash seed, which real executions do not control
// either; there we use a seeded permutation of the sorted keys.
func Keys[K comparable, V any](site int32, m map[K]V) []K {
	if int(site) < len(Hits) {
		Hits[site]++
	}
	n := len(m)
	if n == 0 {
		return nil
	}
	keys := make([]K, 0, n)
	for k := range m {
		keys = append(keys, k)
	}
	t := cur
	if t == nil {
		switch DefaultMapOrder {
		case 1:
			sortKeys(keys)
		case 2:
			sortKeys(keys)
			for i, j := 0, len(keys)-1; i < j; i, j = i+1, j-1 {
				keys[i], keys[j] = keys[j], keys[i]
			}
		}
		return keys
	}
	visit := t.visits[site]
	t.visits[site] = visit + 1
	h := mix(t.MapSeed ^ uint64(t.ID)*0x9E3779B97F4A7C15 ^ uint64(site)<<32 ^ uint64(visit))
	if t.MapSeed == 0 {
		// identity order: normalised, no rotation / ascending
		h = 0
	}
	MapDraws++
	if n <= 8 && singleBucket(m) {
		// normalise the rotation of the native (slot) order
		min := 0
		for i := 1; i < n; i++ {
			if lessKey(keys[i], keys[min]) {
				min = i
			}
		}
		rot := 0
		if h != 0 {
			rot = int(h % uint64(n))
		}
		out := make([]K, n)
		for i := 0; i < n; i++ {
			out[i] = keys[(min+rot+i)%n]
		}
		return out
	}
	sortKeys(keys)
	if h != 0 {
		r := rng{h}
		for i := n - 1; i > 0; i-- {
			j := int(r.next() % uint64(i+1))
			keys[i], keys[j] = keys[j], keys[i]
		}
	}
	return keys
}

// MapDraws counts map-order decisions (evidence).
var MapDraws int64

// singleBucket reports whether the map's hash table has B == 0. Layout of
// runtime.hmap in Go 1.18–1.23: count int; flags uint8; B uint8; ...
func singleBucket[K comparable, V any](m map[K]V) bool {
	if !classicMaps {
		return false
	}
	p := *(*unsafe.Pointer)(unsafe.Pointer(&m))
	if p == nil {
		return true
	}
	b := *(*uint8)(unsafe.Add(p, unsafe.Sizeof(int(0))+1))
	return b == 0
}

func sortKeys[K comparable](keys []K) {
	sort.SliceStable(keys, func(i, j int) bool { return lessKey(keys[i], keys[j]) })
}

func lessKey[K comparable](a, b K) bool {
	switch x := any(a).(type) {
	case string:
		return x < any(b).(string)
	case int:
		return x < any(b).(int)
	case int32:
		return x < any(b).(int32)
	case int64:
		return x < any(b).(int64)
	case uint8:
		return x < any(b).(uint8)
	case uint16:
		return x < any(b).(uint16)
	case uint32:
		return x < any(b).(uint32)
	case uint64:
		return x < any(b).(uint64)
	case bool:
		return !x && any(b).(bool)
	}
	va, vb := reflect.ValueOf(a), reflect.ValueOf(b)
	switch va.Kind() {
	case reflect.String:
		return va.String() < vb.String()
	case reflect.Int, reflect.Int8, reflect.Int16, reflect.Int32, reflect.Int64:
		return va.Int() < vb.Int()
	case reflect.Uint, reflect.Uint8, reflect.Uint16, reflect.Uint32, reflect.Uint64, reflect.Uintptr:
		return va.Uint() < vb.Uint()
	case reflect.Pointer:
		// pointer identity carries no deterministic order; order by pointee rendering
		return fmt.Sprintf("%+v", va.Elem()) < fmt.Sprintf("%+v", vb.Elem())
	}
	return fmt.Sprintf("%#v", a) < fmt.Sprintf("%#v", b)
}

type rng struct{ s uint64 }

func (r *rng) next() uint64 {
	r.s += 0x9E3779B97F4A7C15
	return mix(r.s)
}

func mix(z uint64) uint64 {
	z = (z ^ (z >> 30)) * 0xBF58476D1CE4E5B9
	z = (z ^ (z >> 27)) * 0x94D049BB133111EB
	z ^= z >> 31
	if z == 0 {
		z = 1
	}
	return z
}
