// Package officew generates valid DOCX, XLSX, PPTX, ODT and EPUB packages (and
// HTML pages) from seeds, independent of tabula, and assembles ZIP containers
// with its own writer so that container-level faults can be injected field by
// field.
package officew

import (
	"bytes"
	"compress/flate"
	"encoding/binary"
	"hash/crc32"
)

// Member is one file of a package.
type Member struct {
	Name  string
	Data  []byte
	Store bool // stored instead of deflated
}

// Package is an ordered list of members.
type Package struct {
	Members []Member
}

func (p *Package) Add(name string, data string) {
	p.Members = append(p.Members, Member{Name: name, Data: []byte(data)})
}

func (p *Package) Find(name string) int {
	for i, m := range p.Members {
		if m.Name == name {
			return i
		}
	}
	return -1
}

func (p *Package) Clone() *Package {
	q := &Package{Members: make([]Member, len(p.Members))}
	for i, m := range p.Members {
		q.Members[i] = Member{Name: m.Name, Data: append([]byte{}, m.Data...), Store: m.Store}
	}
	return q
}

// ZipFault describes container-level damage applied while assembling.
type ZipFault struct {
	Member  int    // index of the member concerned (-1: archive level)
	Kind    string // crc compressed method local-name central-name usize csize offset eocd-count eocd-offset eocd-size
	Value   int64
}

// Bytes assembles the archive, applying the given faults.
func (p *Package) Bytes(faults ...ZipFault) []byte {
	var out bytes.Buffer
	type cent struct {
		name         string
		method       uint16
		crc          uint32
		csize, usize uint32
		offset       uint32
	}
	var cd []cent
	for i, m := range p.Members {
		method := uint16(8)
		var comp []byte
		if m.Store {
			method = 0
			comp = m.Data
		} else {
			var b bytes.Buffer
			fw, _ := flate.NewWriter(&b, flate.DefaultCompression)
			fw.Write(m.Data)
			fw.Close()
			comp = b.Bytes()
		}
		c := cent{name: m.Name, method: method, crc: crc32.ChecksumIEEE(m.Data), csize: uint32(len(comp)), usize: uint32(len(m.Data)), offset: uint32(out.Len())}
		localName := m.Name
		for _, f := range faults {
			if f.Member != i {
				continue
			}
			switch f.Kind {
			case "crc":
				c.crc ^= uint32(f.Value) | 1
			case "compressed":
				if len(comp) > 0 {
					comp = append([]byte{}, comp...)
					comp[int(f.Value)%len(comp)] ^= 0x5A
				}
			case "method":
				c.method = uint16(f.Value)
			case "local-name":
				localName = localName + "x"
			case "central-name":
				c.name = c.name + "y"
			case "usize":
				c.usize = uint32(f.Value)
			case "csize":
				c.csize = uint32(f.Value)
			}
		}
		// local file header
		var h [30]byte
		binary.LittleEndian.PutUint32(h[0:], 0x04034b50)
		binary.LittleEndian.PutUint16(h[4:], 20)
		binary.LittleEndian.PutUint16(h[6:], 0)
		binary.LittleEndian.PutUint16(h[8:], c.method)
		binary.LittleEndian.PutUint16(h[10:], 0)
		binary.LittleEndian.PutUint16(h[12:], 0x21)
		binary.LittleEndian.PutUint32(h[14:], c.crc)
		binary.LittleEndian.PutUint32(h[18:], c.csize)
		binary.LittleEndian.PutUint32(h[22:], c.usize)
		binary.LittleEndian.PutUint16(h[26:], uint16(len(localName)))
		binary.LittleEndian.PutUint16(h[28:], 0)
		out.Write(h[:])
		out.WriteString(localName)
		out.Write(comp)
		for _, f := range faults {
			if f.Member == i && f.Kind == "offset" {
				c.offset = uint32(f.Value)
			}
		}
		cd = append(cd, c)
	}
	cdStart := out.Len()
	for _, c := range cd {
		var h [46]byte
		binary.LittleEndian.PutUint32(h[0:], 0x02014b50)
		binary.LittleEndian.PutUint16(h[4:], 20)
		binary.LittleEndian.PutUint16(h[6:], 20)
		binary.LittleEndian.PutUint16(h[10:], c.method)
		binary.LittleEndian.PutUint16(h[14:], 0x21)
		binary.LittleEndian.PutUint32(h[16:], c.crc)
		binary.LittleEndian.PutUint32(h[20:], c.csize)
		binary.LittleEndian.PutUint32(h[24:], c.usize)
		binary.LittleEndian.PutUint16(h[28:], uint16(len(c.name)))
		binary.LittleEndian.PutUint32(h[42:], c.offset)
		out.Write(h[:])
		out.WriteString(c.name)
	}
	cdSize := out.Len() - cdStart
	count := uint16(len(cd))
	cdOff := uint32(cdStart)
	cdSz := uint32(cdSize)
	for _, f := range faults {
		if f.Member >= 0 {
			continue
		}
		switch f.Kind {
		case "eocd-count":
			count = uint16(f.Value)
		case "eocd-offset":
			cdOff = uint32(f.Value)
		case "eocd-size":
			cdSz = uint32(f.Value)
		}
	}
	var e [22]byte
	binary.LittleEndian.PutUint32(e[0:], 0x06054b50)
	binary.LittleEndian.PutUint16(e[8:], count)
	binary.LittleEndian.PutUint16(e[10:], count)
	binary.LittleEndian.PutUint32(e[12:], cdSz)
	binary.LittleEndian.PutUint32(e[16:], cdOff)
	out.Write(e[:])
	return out.Bytes()
}
