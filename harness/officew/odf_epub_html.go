package officew

import (
	"fmt"
	"strings"

	"github.com/tsawler/tabula/zzharness/sim"
)

// ---------------------------------------------------------------------------
// ODT
// ---------------------------------------------------------------------------

const odfNS = `xmlns:office="urn:oasis:names:tc:opendocument:xmlns:office:1.0" xmlns:style="urn:oasis:names:tc:opendocument:xmlns:style:1.0" xmlns:text="urn:oasis:names:tc:opendocument:xmlns:text:1.0" xmlns:table="urn:oasis:names:tc:opendocument:xmlns:table:1.0" xmlns:fo="urn:oasis:names:tc:opendocument:xmlns:xsl-fo-compatible:1.0" xmlns:xlink="http://www.w3.org/1999/xlink" xmlns:dc="http://purl.org/dc/elements/1.1/" xmlns:meta="urn:oasis:names:tc:opendocument:xmlns:meta:1.0"`

func ODT(r *sim.Rand) *Package {
	p := &Package{}
	p.Members = append(p.Members, Member{Name: "mimetype", Data: []byte("application/vnd.oasis.opendocument.text"), Store: true})
	var b strings.Builder
	b.WriteString(`<?xml version="1.0" encoding="UTF-8"?>` + "\n" + `<office:document-content ` + odfNS + ` office:version="1.2"><office:automatic-styles><style:style style:name="P1" style:family="paragraph" style:parent-style-name="Standard"><style:text-properties fo:font-weight="bold"/></style:style><style:style style:name="T1" style:family="text"><style:text-properties fo:font-style="italic"/></style:style>` + odtListStyle(r) + `</office:automatic-styles><office:body><office:text>`)
	inline := func() string {
		var s strings.Builder
		for i, n := 0, 1+r.Intn(3); i < n; i++ {
			switch r.Intn(7) {
			case 0:
				s.WriteString(`<text:span text:style-name="T1">` + xmlEsc(phrase(r, 2)) + `</text:span>`)
			case 1:
				s.WriteString(`<text:tab/>` + xmlEsc(phrase(r, 1)))
			case 2:
				s.WriteString(xmlEsc(phrase(r, 1)) + `<text:line-break/>` + xmlEsc(phrase(r, 1)))
			case 3:
				fmt.Fprintf(&s, `%s<text:s text:c="%d"/>%s`, xmlEsc(phrase(r, 1)), 1+r.Intn(4), xmlEsc(phrase(r, 1)))
			case 4:
				s.WriteString(`<text:a xlink:type="simple" xlink:href="http://example.com/">` + xmlEsc(phrase(r, 2)) + `</text:a>`)
			default:
				s.WriteString(xmlEsc(phrase(r, 1+r.Intn(5))) + " ")
			}
		}
		return s.String()
	}
	var list func(depth int)
	list = func(depth int) {
		b.WriteString(`<text:list text:style-name="L1">`)
		for i, n := 0, 1+r.Intn(3); i < n; i++ {
			b.WriteString(`<text:list-item><text:p text:style-name="Standard">` + inline() + `</text:p>`)
			if depth < 2 && r.Pct(25) {
				list(depth + 1)
			}
			b.WriteString(`</text:list-item>`)
		}
		b.WriteString(`</text:list>`)
	}
	n := 2 + r.Intn(9)
	for i := 0; i < n; i++ {
		switch r.Intn(7) {
		case 0:
			fmt.Fprintf(&b, `<text:h text:style-name="Heading_20_%d" text:outline-level="%d">%s</text:h>`, 1+r.Intn(3), 1+r.Intn(3), inline())
		case 1:
			list(0)
		case 2:
			rows, cols := 1+r.Intn(3), 1+r.Intn(4)
			fmt.Fprintf(&b, `<table:table table:name="T%d"><table:table-column table:number-columns-repeated="%d"/>`, i, cols)
			for y := 0; y < rows; y++ {
				b.WriteString(`<table:table-row>`)
				for x := 0; x < cols; x++ {
					attrs := ""
					if x+1 < cols && r.Pct(15) {
						attrs = ` table:number-columns-spanned="2"`
					}
					if r.Pct(10) {
						attrs += ` table:number-rows-spanned="2"`
					}
					b.WriteString(`<table:table-cell office:value-type="string"` + attrs + `><text:p>` + inline() + `</text:p></table:table-cell>`)
					if strings.Contains(attrs, "columns-spanned") {
						b.WriteString(`<table:covered-table-cell/>`)
						x++
					}
				}
				b.WriteString(`</table:table-row>`)
			}
			b.WriteString(`</table:table>`)
		default:
			b.WriteString(`<text:p text:style-name="` + sim.Pick(r, []string{"Standard", "P1", "Text_20_body"}) + `">` + inline() + `</text:p>`)
		}
	}
	b.WriteString(`</office:text></office:body></office:document-content>`)
	p.Add("content.xml", b.String())
	p.Add("styles.xml", `<?xml version="1.0" encoding="UTF-8"?>`+"\n"+`<office:document-styles `+odfNS+` office:version="1.2"><office:styles><style:style style:name="Standard" style:family="paragraph"/><style:style style:name="Heading" style:family="paragraph" style:parent-style-name="Standard"/><style:style style:name="Heading_20_1" style:display-name="Heading 1" style:family="paragraph" style:parent-style-name="Heading" style:default-outline-level="1"/><style:style style:name="Heading_20_2" style:display-name="Heading 2" style:family="paragraph" style:parent-style-name="Heading" style:default-outline-level="2"/><style:style style:name="Heading_20_3" style:display-name="Heading 3" style:family="paragraph" style:parent-style-name="Heading"/></office:styles><office:master-styles><style:master-page style:name="Standard"><style:header><text:p>Header `+xmlEsc(phrase(r, 2))+`</text:p></style:header><style:footer><text:p>Footer `+xmlEsc(phrase(r, 1))+`</text:p></style:footer></style:master-page></office:master-styles></office:document-styles>`)
	p.Add("meta.xml", `<?xml version="1.0" encoding="UTF-8"?>`+"\n"+`<office:document-meta `+odfNS+` office:version="1.2"><office:meta><dc:title>`+xmlEsc(phrase(r, 2))+`</dc:title><dc:creator>officew</dc:creator><meta:creation-date>2024-01-02T03:04:05</meta:creation-date></office:meta></office:document-meta>`)
	p.Add("META-INF/manifest.xml", `<?xml version="1.0" encoding="UTF-8"?>`+"\n"+`<manifest:manifest xmlns:manifest="urn:oasis:names:tc:opendocument:xmlns:manifest:1.0" manifest:version="1.2"><manifest:file-entry manifest:full-path="/" manifest:media-type="application/vnd.oasis.opendocument.text"/><manifest:file-entry manifest:full-path="content.xml" manifest:media-type="text/xml"/><manifest:file-entry manifest:full-path="styles.xml" manifest:media-type="text/xml"/><manifest:file-entry manifest:full-path="meta.xml" manifest:media-type="text/xml"/></manifest:manifest>`)
	return p
}

// odtListStyle defines the list style the lists refer to: three levels, numbered
// (decimal, alphabetic or roman, with a start value) or bulleted.
func odtListStyle(r *sim.Rand) string {
	var b strings.Builder
	b.WriteString(`<text:list-style style:name="L1">`)
	for lvl := 1; lvl <= 3; lvl++ {
		if r.Pct(30) {
			fmt.Fprintf(&b, `<text:list-level-style-bullet text:level="%d" text:bullet-char="%s"><style:list-level-properties text:space-before="%dcm"/></text:list-level-style-bullet>`,
				lvl, sim.Pick(r, []string{"\u2022", "-", "\u25e6"}), lvl)
			continue
		}
		fmt.Fprintf(&b, `<text:list-level-style-number text:level="%d" style:num-format="%s" style:num-suffix="." text:start-value="%d" text:display-levels="%d"><style:list-level-properties text:space-before="%dcm"/></text:list-level-style-number>`,
			lvl, sim.Pick(r, []string{"1", "a", "A", "i", "I", "I", "i"}), 1+r.Intn(12), 1+r.Intn(lvl), lvl)
	}
	b.WriteString(`</text:list-style>`)
	return b.String()
}

// ---------------------------------------------------------------------------
// EPUB
// ---------------------------------------------------------------------------

func EPUB(r *sim.Rand) *Package {
	p := &Package{}
	p.Members = append(p.Members, Member{Name: "mimetype", Data: []byte("application/epub+zip"), Store: true})
	dir := sim.Pick(r, []string{"OEBPS", "EPUB", "content/book"})
	p.Add("META-INF/container.xml", `<?xml version="1.0"?><container version="1.0" xmlns="urn:oasis:names:tc:opendocument:xmlns:container"><rootfiles><rootfile full-path="`+dir+`/content.opf" media-type="application/oebps-package+xml"/></rootfiles></container>`)
	n := 1 + r.Intn(4)
	v3 := r.Bool()
	var opf strings.Builder
	ver := "2.0"
	if v3 {
		ver = "3.0"
	}
	fmt.Fprintf(&opf, `<?xml version="1.0" encoding="UTF-8"?><package xmlns="http://www.idpf.org/2007/opf" version="%s" unique-identifier="uid"><metadata xmlns:dc="http://purl.org/dc/elements/1.1/"><dc:identifier id="uid">urn:uuid:%d</dc:identifier><dc:title>%s</dc:title><dc:language>en</dc:language><dc:creator>officew</dc:creator></metadata><manifest>`, ver, r.Intn(1000000), xmlEsc(phrase(r, 2)))
	for i := 1; i <= n; i++ {
		fmt.Fprintf(&opf, `<item id="ch%d" href="text/chapter%%20%d.xhtml" media-type="application/xhtml+xml"/>`, i, i)
	}
	if v3 {
		opf.WriteString(`<item id="nav" href="nav.xhtml" media-type="application/xhtml+xml" properties="nav"/>`)
	}
	opf.WriteString(`<item id="ncx" href="toc.ncx" media-type="application/x-dtbncx+xml"/><item id="css" href="style.css" media-type="text/css"/></manifest><spine toc="ncx">`)
	for _, i := range r.Perm(n) {
		fmt.Fprintf(&opf, `<itemref idref="ch%d"/>`, i+1)
	}
	opf.WriteString(`</spine></package>`)
	p.Add(dir+"/content.opf", opf.String())
	for i := 1; i <= n; i++ {
		p.Add(fmt.Sprintf("%s/text/chapter %d.xhtml", dir, i), `<?xml version="1.0" encoding="UTF-8"?><html xmlns="http://www.w3.org/1999/xhtml"><head><title>Chapter `+fmt.Sprint(i)+`</title><link rel="stylesheet" href="../style.css"/></head><body>`+htmlBody(r, 2+r.Intn(5), 0)+`</body></html>`)
	}
	if v3 {
		var nav strings.Builder
		nav.WriteString(`<?xml version="1.0" encoding="UTF-8"?><html xmlns="http://www.w3.org/1999/xhtml" xmlns:epub="http://www.idpf.org/2007/ops"><head><title>Nav</title></head><body><nav epub:type="toc"><ol>`)
		for i := 1; i <= n; i++ {
			fmt.Fprintf(&nav, `<li><a href="text/chapter%%20%d.xhtml">Chapter %d</a></li>`, i, i)
		}
		nav.WriteString(`</ol></nav></body></html>`)
		p.Add(dir+"/nav.xhtml", nav.String())
	}
	var ncx strings.Builder
	ncx.WriteString(`<?xml version="1.0" encoding="UTF-8"?><ncx xmlns="http://www.daisy.org/z3986/2005/ncx/" version="2005-1"><head><meta name="dtb:uid" content="x"/></head><docTitle><text>T</text></docTitle><navMap>`)
	for i := 1; i <= n; i++ {
		fmt.Fprintf(&ncx, `<navPoint id="np%d" playOrder="%d"><navLabel><text>Chapter %d</text></navLabel><content src="text/chapter%%20%d.xhtml"/></navPoint>`, i, i, i, i)
	}
	ncx.WriteString(`</navMap></ncx>`)
	p.Add(dir+"/toc.ncx", ncx.String())
	p.Add(dir+"/style.css", "p { margin: 0 }")
	return p
}

// ---------------------------------------------------------------------------
// HTML
// ---------------------------------------------------------------------------

func htmlBody(r *sim.Rand, n, depth int) string {
	var b strings.Builder
	for i := 0; i < n; i++ {
		switch r.Intn(10) {
		case 0:
			lv := 1 + r.Intn(4)
			fmt.Fprintf(&b, "<h%d>%s</h%d>", lv, xmlEsc(phrase(r, 2)), lv)
		case 1:
			tag := sim.Pick(r, []string{"ul", "ol"})
			b.WriteString("<" + tag + ">")
			for k, m := 0, 1+r.Intn(4); k < m; k++ {
				b.WriteString("<li>" + xmlEsc(phrase(r, 2)))
				if depth < 2 && r.Pct(20) {
					b.WriteString("<ul><li>" + xmlEsc(phrase(r, 1)) + "</li></ul>")
				}
				b.WriteString("</li>")
			}
			b.WriteString("</" + tag + ">")
		case 2:
			b.WriteString("<table><tr><th>" + xmlEsc(phrase(r, 1)) + "</th><th colspan=\"2\">" + xmlEsc(phrase(r, 1)) + "</th></tr>")
			for y, rows := 0, 1+r.Intn(3); y < rows; y++ {
				b.WriteString("<tr><td>" + xmlEsc(phrase(r, 1)) + "</td><td>" + xmlEsc(phrase(r, 1)) + "</td><td rowspan=\"1\">" + xmlEsc(phrase(r, 1)) + "</td></tr>")
			}
			b.WriteString("</table>")
		case 3:
			b.WriteString("<pre><code>" + xmlEsc("if a < b { x & y }") + "</code></pre>")
		case 4:
			b.WriteString("<blockquote><p>" + xmlEsc(phrase(r, 3)) + "</p></blockquote>")
		case 5:
			if depth < 3 {
				cls := sim.Pick(r, []string{"content", "sidebar", "nav-menu", "main", "footer-links", "article"})
				b.WriteString("<div class=\"" + cls + "\">" + htmlBody(r, 1+r.Intn(3), depth+1) + "</div>")
			}
		case 6:
			b.WriteString("<script>var a = \"<p>not text</p>\";</script><style>p{}</style>")
		default:
			b.WriteString("<p>" + xmlEsc(phrase(r, 2+r.Intn(6))) + " <a href=\"#x\">" + xmlEsc(phrase(r, 1)) + "</a> &copy; &#8212; &nbsp;</p>")
		}
	}
	return b.String()
}

// HTML returns a complete page.
func HTML(r *sim.Rand) []byte {
	var b strings.Builder
	if r.Pct(25) {
		// XHTML served as a file: an XML declaration in front
		b.WriteString("<?xml version=\"1.0\" encoding=\"UTF-8\"?>\n")
	}
	b.WriteString("<!DOCTYPE html><html><head><meta charset=\"utf-8\"><title>" + xmlEsc(phrase(r, 2+r.Intn(6))) + "</title></head><body>")
	if r.Bool() {
		b.WriteString("<header><nav><ul><li><a href=\"/\">Home</a></li><li><a href=\"/a\">About</a></li></ul></nav></header>")
	}
	if r.Bool() {
		b.WriteString("<main>" + htmlBody(r, 2+r.Intn(8), 0) + "</main>")
	} else {
		b.WriteString(htmlBody(r, 2+r.Intn(8), 0))
	}
	if r.Bool() {
		b.WriteString("<aside role=\"complementary\"><p>" + xmlEsc(phrase(r, 2)) + "</p></aside>")
	}
	if r.Bool() {
		b.WriteString("<footer><p>&copy; " + xmlEsc(phrase(r, 2)) + "</p></footer>")
	}
	b.WriteString("</body></html>")
	return []byte(b.String())
}

// EPUBFromChapters builds an EPUB 3 package whose spine lists the given chapter
// documents in order (file names do not follow spine order).
func EPUBFromChapters(chapters [][]byte, r *sim.Rand) *Package {
	p := &Package{}
	p.Members = append(p.Members, Member{Name: "mimetype", Data: []byte("application/epub+zip"), Store: true})
	p.Add("META-INF/container.xml", `<?xml version="1.0"?><container version="1.0" xmlns="urn:oasis:names:tc:opendocument:xmlns:container"><rootfiles><rootfile full-path="OEBPS/content.opf" media-type="application/oebps-package+xml"/></rootfiles></container>`)
	names := make([]string, len(chapters))
	perm := r.Perm(len(chapters))
	for i := range chapters {
		names[i] = fmt.Sprintf("text/part%03d.xhtml", perm[i])
	}
	var opf strings.Builder
	opf.WriteString(`<?xml version="1.0" encoding="UTF-8"?><package xmlns="http://www.idpf.org/2007/opf" version="3.0" unique-identifier="uid"><metadata xmlns:dc="http://purl.org/dc/elements/1.1/"><dc:identifier id="uid">urn:uuid:c19</dc:identifier><dc:title>C19</dc:title><dc:language>en</dc:language></metadata><manifest>`)
	for i := range chapters {
		fmt.Fprintf(&opf, `<item id="c%d" href="%s" media-type="application/xhtml+xml"/>`, i, names[i])
	}
	opf.WriteString(`<item id="nav" href="nav.xhtml" media-type="application/xhtml+xml" properties="nav"/></manifest><spine>`)
	for i := range chapters {
		fmt.Fprintf(&opf, `<itemref idref="c%d"/>`, i)
	}
	opf.WriteString(`</spine></package>`)
	p.Add("OEBPS/content.opf", opf.String())
	for i, c := range chapters {
		p.Members = append(p.Members, Member{Name: "OEBPS/" + names[i], Data: c})
	}
	p.Add("OEBPS/nav.xhtml", `<?xml version="1.0" encoding="UTF-8"?><html xmlns="http://www.w3.org/1999/xhtml" xmlns:epub="http://www.idpf.org/2007/ops"><head><title>Nav</title></head><body><nav epub:type="toc"><ol><li><a href="`+names[0]+`">Start</a></li></ol></nav></body></html>`)
	return p
}
