package officew

import (
	"fmt"
	"strings"

	"github.com/tsawler/tabula/zzharness/sim"
)

var vocab = []string{"alpha", "bravo", "charlie", "delta", "echo", "foxtrot", "golf", "hotel", "india", "juliet", "kilo", "lima",
	"R&D", "a<b", "\"quoted\"", "café", "naïve", "漢字", "x|y", "tab\there",
	// letters whose upper or lower case has another length in UTF-8 (byte offsets computed on
	// a case-folded copy do not fit the original)
	"kırık ışık", "ſtraße", "ɐlpha ⱥ", "İstanbul"}

func xmlEsc(s string) string {
	r := strings.NewReplacer("&", "&amp;", "<", "&lt;", ">", "&gt;", "\"", "&quot;")
	return r.Replace(s)
}

func phrase(r *sim.Rand, n int) string {
	var w []string
	for i := 0; i < n; i++ {
		w = append(w, sim.Pick(r, vocab))
	}
	return strings.Join(w, " ")
}

const xmlDecl = `<?xml version="1.0" encoding="UTF-8" standalone="yes"?>` + "\n"

// ---------------------------------------------------------------------------
// DOCX
// ---------------------------------------------------------------------------

func DOCX(r *sim.Rand) *Package {
	p := &Package{}
	hasHdr := r.Bool()
	hasNum := r.Bool()
	hasStyles := r.Pct(80)
	var ct strings.Builder
	ct.WriteString(xmlDecl + `<Types xmlns="http://schemas.openxmlformats.org/package/2006/content-types"><Default Extension="rels" ContentType="application/vnd.openxmlformats-package.relationships+xml"/><Default Extension="xml" ContentType="application/xml"/><Override PartName="/word/document.xml" ContentType="application/vnd.openxmlformats-officedocument.wordprocessingml.document.main+xml"/>`)
	if hasStyles {
		ct.WriteString(`<Override PartName="/word/styles.xml" ContentType="application/vnd.openxmlformats-officedocument.wordprocessingml.styles+xml"/>`)
	}
	if hasNum {
		ct.WriteString(`<Override PartName="/word/numbering.xml" ContentType="application/vnd.openxmlformats-officedocument.wordprocessingml.numbering+xml"/>`)
	}
	ct.WriteString(`</Types>`)
	p.Add("[Content_Types].xml", ct.String())
	p.Add("_rels/.rels", xmlDecl+`<Relationships xmlns="http://schemas.openxmlformats.org/package/2006/relationships"><Relationship Id="rId1" Type="http://schemas.openxmlformats.org/officeDocument/2006/relationships/officeDocument" Target="word/document.xml"/><Relationship Id="rId2" Type="http://schemas.openxmlformats.org/package/2006/relationships/metadata/core-properties" Target="docProps/core.xml"/></Relationships>`)

	var b strings.Builder
	b.WriteString(xmlDecl + `<w:document xmlns:w="http://schemas.openxmlformats.org/wordprocessingml/2006/main" xmlns:r="http://schemas.openxmlformats.org/officeDocument/2006/relationships"><w:body>`)
	run := func(text string) string {
		props := ""
		if r.Pct(20) {
			props = `<w:rPr><w:b/></w:rPr>`
		}
		return `<w:r>` + props + `<w:t xml:space="preserve">` + xmlEsc(text) + `</w:t></w:r>`
	}
	para := func(style string, numID, lvl int) {
		b.WriteString(`<w:p>`)
		if style != "" || numID > 0 {
			b.WriteString(`<w:pPr>`)
			if style != "" {
				b.WriteString(`<w:pStyle w:val="` + style + `"/>`)
			}
			if numID > 0 {
				fmt.Fprintf(&b, `<w:numPr><w:ilvl w:val="%d"/><w:numId w:val="%d"/></w:numPr>`, lvl, numID)
			}
			b.WriteString(`</w:pPr>`)
		}
		nr := 1 + r.Intn(3)
		for i := 0; i < nr; i++ {
			switch r.Intn(8) {
			case 0:
				b.WriteString(`<w:r><w:tab/><w:t>` + xmlEsc(phrase(r, 1)) + `</w:t></w:r>`)
			case 1:
				b.WriteString(`<w:r><w:t>` + xmlEsc(phrase(r, 1)) + `</w:t><w:br/><w:t>` + xmlEsc(phrase(r, 1)) + `</w:t></w:r>`)
			case 2:
				b.WriteString(`<w:hyperlink r:id="rId9">` + run(phrase(r, 2)) + `</w:hyperlink>`)
			default:
				b.WriteString(run(phrase(r, 1+r.Intn(5)) + " "))
			}
		}
		b.WriteString(`</w:p>`)
	}
	table := func() {
		rows, cols := 1+r.Intn(4), 1+r.Intn(4)
		b.WriteString(`<w:tbl><w:tblGrid>`)
		for c := 0; c < cols; c++ {
			b.WriteString(`<w:gridCol w:w="2000"/>`)
		}
		b.WriteString(`</w:tblGrid>`)
		for y := 0; y < rows; y++ {
			b.WriteString(`<w:tr>`)
			for x := 0; x < cols; x++ {
				b.WriteString(`<w:tc><w:tcPr>`)
				span := 1
				if x+1 < cols && r.Pct(15) {
					span = 2
					b.WriteString(`<w:gridSpan w:val="2"/>`)
				}
				if rows > 1 && r.Pct(10) {
					if y == 0 {
						b.WriteString(`<w:vMerge w:val="restart"/>`)
					} else {
						b.WriteString(`<w:vMerge/>`)
					}
				}
				b.WriteString(`</w:tcPr>`)
				for k, n := 0, 1+r.Intn(2); k < n; k++ {
					b.WriteString(`<w:p>` + run(phrase(r, 1+r.Intn(2))) + `</w:p>`)
				}
				b.WriteString(`</w:tc>`)
				x += span - 1
			}
			b.WriteString(`</w:tr>`)
		}
		b.WriteString(`</w:tbl>`)
	}
	n := 2 + r.Intn(10)
	for i := 0; i < n; i++ {
		switch r.Intn(8) {
		case 0:
			para(fmt.Sprintf("Heading%d", 1+r.Intn(3)), 0, 0)
		case 1:
			if hasNum {
				for k, m := 0, 1+r.Intn(4); k < m; k++ {
					para("ListParagraph", 1+r.Intn(2), r.Intn(3))
				}
			} else {
				para("", 0, 0)
			}
		case 2:
			table()
		default:
			para("", 0, 0)
		}
	}
	b.WriteString(`<w:sectPr>`)
	if hasHdr {
		b.WriteString(`<w:headerReference w:type="default" r:id="rId3"/><w:footerReference w:type="default" r:id="rId4"/>`)
	}
	b.WriteString(`<w:pgSz w:w="12240" w:h="15840"/></w:sectPr></w:body></w:document>`)
	p.Add("word/document.xml", b.String())

	var rels strings.Builder
	rels.WriteString(xmlDecl + `<Relationships xmlns="http://schemas.openxmlformats.org/package/2006/relationships">`)
	if hasStyles {
		rels.WriteString(`<Relationship Id="rId1" Type="http://schemas.openxmlformats.org/officeDocument/2006/relationships/styles" Target="styles.xml"/>`)
	}
	if hasNum {
		rels.WriteString(`<Relationship Id="rId2" Type="http://schemas.openxmlformats.org/officeDocument/2006/relationships/numbering" Target="numbering.xml"/>`)
	}
	if hasHdr {
		rels.WriteString(`<Relationship Id="rId3" Type="http://schemas.openxmlformats.org/officeDocument/2006/relationships/header" Target="header1.xml"/><Relationship Id="rId4" Type="http://schemas.openxmlformats.org/officeDocument/2006/relationships/footer" Target="footer1.xml"/>`)
	}
	rels.WriteString(`<Relationship Id="rId9" Type="http://schemas.openxmlformats.org/officeDocument/2006/relationships/hyperlink" Target="http://example.com/" TargetMode="External"/></Relationships>`)
	p.Add("word/_rels/document.xml.rels", rels.String())
	if hasStyles {
		p.Add("word/styles.xml", xmlDecl+`<w:styles xmlns:w="http://schemas.openxmlformats.org/wordprocessingml/2006/main"><w:style w:type="paragraph" w:default="1" w:styleId="Normal"><w:name w:val="Normal"/></w:style><w:style w:type="paragraph" w:styleId="Heading1"><w:name w:val="heading 1"/><w:basedOn w:val="Normal"/><w:pPr><w:outlineLvl w:val="0"/></w:pPr></w:style><w:style w:type="paragraph" w:styleId="Heading2"><w:name w:val="heading 2"/><w:basedOn w:val="Heading1"/><w:pPr><w:outlineLvl w:val="1"/></w:pPr></w:style><w:style w:type="paragraph" w:styleId="Heading3"><w:name w:val="heading 3"/><w:basedOn w:val="Heading2"/></w:style><w:style w:type="paragraph" w:styleId="ListParagraph"><w:name w:val="List Paragraph"/><w:basedOn w:val="Normal"/></w:style></w:styles>`)
	}
	if hasNum {
		p.Add("word/numbering.xml", xmlDecl+`<w:numbering xmlns:w="http://schemas.openxmlformats.org/wordprocessingml/2006/main"><w:abstractNum w:abstractNumId="0"><w:lvl w:ilvl="0"><w:start w:val="1"/><w:numFmt w:val="decimal"/><w:lvlText w:val="%1."/></w:lvl><w:lvl w:ilvl="1"><w:start w:val="1"/><w:numFmt w:val="lowerLetter"/><w:lvlText w:val="%2)"/></w:lvl><w:lvl w:ilvl="2"><w:start w:val="1"/><w:numFmt w:val="bullet"/><w:lvlText w:val="o"/></w:lvl></w:abstractNum><w:abstractNum w:abstractNumId="1"><w:lvl w:ilvl="0"><w:numFmt w:val="bullet"/><w:lvlText w:val="*"/></w:lvl></w:abstractNum><w:num w:numId="1"><w:abstractNumId w:val="0"/></w:num><w:num w:numId="2"><w:abstractNumId w:val="1"/></w:num></w:numbering>`)
	}
	if hasHdr {
		p.Add("word/header1.xml", xmlDecl+`<w:hdr xmlns:w="http://schemas.openxmlformats.org/wordprocessingml/2006/main"><w:p><w:r><w:t>Header `+xmlEsc(phrase(r, 2))+`</w:t></w:r></w:p></w:hdr>`)
		p.Add("word/footer1.xml", xmlDecl+`<w:ftr xmlns:w="http://schemas.openxmlformats.org/wordprocessingml/2006/main"><w:p><w:r><w:t>Footer `+xmlEsc(phrase(r, 2))+`</w:t></w:r></w:p></w:ftr>`)
	}
	p.Add("docProps/core.xml", xmlDecl+`<cp:coreProperties xmlns:cp="http://schemas.openxmlformats.org/package/2006/metadata/core-properties" xmlns:dc="http://purl.org/dc/elements/1.1/" xmlns:dcterms="http://purl.org/dc/terms/" xmlns:xsi="http://www.w3.org/2001/XMLSchema-instance"><dc:title>`+xmlEsc(phrase(r, 2))+`</dc:title><dc:creator>officew</dc:creator><dcterms:created xsi:type="dcterms:W3CDTF">2024-01-02T03:04:05Z</dcterms:created></cp:coreProperties>`)
	if r.Pct(40) {
		p.Members = shuffleMembers(p.Members, r)
	}
	return p
}

func shuffleMembers(m []Member, r *sim.Rand) []Member {
	out := make([]Member, len(m))
	for i, j := range r.Perm(len(m)) {
		out[i] = m[j]
	}
	return out
}

// ---------------------------------------------------------------------------
// XLSX
// ---------------------------------------------------------------------------

func colName(c int) string {
	s := ""
	for c >= 0 {
		s = string(rune('A'+c%26)) + s
		c = c/26 - 1
	}
	return s
}

func XLSX(r *sim.Rand) *Package {
	p := &Package{}
	nSheets := 1 + r.Intn(3)
	var ct strings.Builder
	ct.WriteString(xmlDecl + `<Types xmlns="http://schemas.openxmlformats.org/package/2006/content-types"><Default Extension="rels" ContentType="application/vnd.openxmlformats-package.relationships+xml"/><Default Extension="xml" ContentType="application/xml"/><Override PartName="/xl/workbook.xml" ContentType="application/vnd.openxmlformats-officedocument.spreadsheetml.sheet.main+xml"/>`)
	for i := 1; i <= nSheets; i++ {
		fmt.Fprintf(&ct, `<Override PartName="/xl/worksheets/sheet%d.xml" ContentType="application/vnd.openxmlformats-officedocument.spreadsheetml.worksheet+xml"/>`, i)
	}
	ct.WriteString(`<Override PartName="/xl/sharedStrings.xml" ContentType="application/vnd.openxmlformats-officedocument.spreadsheetml.sharedStrings+xml"/></Types>`)
	p.Add("[Content_Types].xml", ct.String())
	p.Add("_rels/.rels", xmlDecl+`<Relationships xmlns="http://schemas.openxmlformats.org/package/2006/relationships"><Relationship Id="rId1" Type="http://schemas.openxmlformats.org/officeDocument/2006/relationships/officeDocument" Target="xl/workbook.xml"/></Relationships>`)
	var wb, rels strings.Builder
	wb.WriteString(xmlDecl + `<workbook xmlns="http://schemas.openxmlformats.org/spreadsheetml/2006/main" xmlns:r="http://schemas.openxmlformats.org/officeDocument/2006/relationships"><sheets>`)
	rels.WriteString(xmlDecl + `<Relationships xmlns="http://schemas.openxmlformats.org/package/2006/relationships">`)
	for i := 1; i <= nSheets; i++ {
		fmt.Fprintf(&wb, `<sheet name="%s" sheetId="%d" r:id="rId%d"/>`, xmlEsc("Sheet "+sim.Pick(r, vocab)+fmt.Sprint(i)), i, i)
		fmt.Fprintf(&rels, `<Relationship Id="rId%d" Type="http://schemas.openxmlformats.org/officeDocument/2006/relationships/worksheet" Target="worksheets/sheet%d.xml"/>`, i, i)
	}
	wb.WriteString(`</sheets></workbook>`)
	fmt.Fprintf(&rels, `<Relationship Id="rId%d" Type="http://schemas.openxmlformats.org/officeDocument/2006/relationships/sharedStrings" Target="sharedStrings.xml"/><Relationship Id="rId%d" Type="http://schemas.openxmlformats.org/officeDocument/2006/relationships/styles" Target="styles.xml"/></Relationships>`, nSheets+1, nSheets+2)
	p.Add("xl/workbook.xml", wb.String())
	p.Add("xl/_rels/workbook.xml.rels", rels.String())
	var shared []string
	for i := 1; i <= nSheets; i++ {
		var s strings.Builder
		rows, cols := 1+r.Intn(8), 1+r.Intn(6)
		fmt.Fprintf(&s, xmlDecl+`<worksheet xmlns="http://schemas.openxmlformats.org/spreadsheetml/2006/main"><dimension ref="A1:%s%d"/><sheetData>`, colName(cols-1), rows)
		for y := 1; y <= rows; y++ {
			if r.Pct(15) {
				continue // sparse rows
			}
			fmt.Fprintf(&s, `<row r="%d">`, y)
			for x := 0; x < cols; x++ {
				if r.Pct(20) {
					continue
				}
				ref := fmt.Sprintf("%s%d", colName(x), y)
				switch r.Intn(6) {
				case 0:
					fmt.Fprintf(&s, `<c r="%s"><v>%d</v></c>`, ref, r.Intn(100000))
				case 1:
					fmt.Fprintf(&s, `<c r="%s" t="inlineStr"><is><t>%s</t></is></c>`, ref, xmlEsc(phrase(r, 2)))
				case 2:
					fmt.Fprintf(&s, `<c r="%s" t="b"><v>%d</v></c>`, ref, r.Intn(2))
				case 3:
					fmt.Fprintf(&s, `<c r="%s"><f>SUM(A1:A2)</f><v>%d.5</v></c>`, ref, r.Intn(100))
				case 4:
					fmt.Fprintf(&s, `<c r="%s" t="e"><v>#DIV/0!</v></c>`, ref)
				default:
					shared = append(shared, phrase(r, 1+r.Intn(3)))
					fmt.Fprintf(&s, `<c r="%s" t="s"><v>%d</v></c>`, ref, len(shared)-1)
				}
			}
			s.WriteString(`</row>`)
		}
		s.WriteString(`</sheetData>`)
		if rows >= 2 && cols >= 2 && r.Pct(40) {
			s.WriteString(`<mergeCells count="1"><mergeCell ref="A1:B2"/></mergeCells>`)
		}
		s.WriteString(`</worksheet>`)
		p.Add(fmt.Sprintf("xl/worksheets/sheet%d.xml", i), s.String())
	}
	var ss strings.Builder
	fmt.Fprintf(&ss, xmlDecl+`<sst xmlns="http://schemas.openxmlformats.org/spreadsheetml/2006/main" count="%d" uniqueCount="%d">`, len(shared), len(shared))
	for i, t := range shared {
		if i%3 == 2 {
			ss.WriteString(`<si><r><t>` + xmlEsc(t) + `</t></r><r><rPr><b/></rPr><t xml:space="preserve"> rich</t></r></si>`)
		} else {
			ss.WriteString(`<si><t>` + xmlEsc(t) + `</t></si>`)
		}
	}
	ss.WriteString(`</sst>`)
	p.Add("xl/sharedStrings.xml", ss.String())
	p.Add("xl/styles.xml", xmlDecl+`<styleSheet xmlns="http://schemas.openxmlformats.org/spreadsheetml/2006/main"><numFmts count="1"><numFmt numFmtId="164" formatCode="0.00"/></numFmts><cellXfs count="2"><xf numFmtId="0"/><xf numFmtId="164"/></cellXfs></styleSheet>`)
	if r.Pct(40) {
		p.Members = shuffleMembers(p.Members, r)
	}
	return p
}

// ---------------------------------------------------------------------------
// PPTX
// ---------------------------------------------------------------------------

func PPTX(r *sim.Rand) *Package {
	p := &Package{}
	n := 1 + r.Intn(4)
	var ct strings.Builder
	ct.WriteString(xmlDecl + `<Types xmlns="http://schemas.openxmlformats.org/package/2006/content-types"><Default Extension="rels" ContentType="application/vnd.openxmlformats-package.relationships+xml"/><Default Extension="xml" ContentType="application/xml"/><Override PartName="/ppt/presentation.xml" ContentType="application/vnd.openxmlformats-officedocument.presentationml.presentation.main+xml"/>`)
	for i := 1; i <= n; i++ {
		fmt.Fprintf(&ct, `<Override PartName="/ppt/slides/slide%d.xml" ContentType="application/vnd.openxmlformats-officedocument.presentationml.slide+xml"/>`, i)
	}
	ct.WriteString(`</Types>`)
	p.Add("[Content_Types].xml", ct.String())
	p.Add("_rels/.rels", xmlDecl+`<Relationships xmlns="http://schemas.openxmlformats.org/package/2006/relationships"><Relationship Id="rId1" Type="http://schemas.openxmlformats.org/officeDocument/2006/relationships/officeDocument" Target="ppt/presentation.xml"/></Relationships>`)
	var pr, rels strings.Builder
	pr.WriteString(xmlDecl + `<p:presentation xmlns:a="http://schemas.openxmlformats.org/drawingml/2006/main" xmlns:r="http://schemas.openxmlformats.org/officeDocument/2006/relationships" xmlns:p="http://schemas.openxmlformats.org/presentationml/2006/main"><p:sldIdLst>`)
	rels.WriteString(xmlDecl + `<Relationships xmlns="http://schemas.openxmlformats.org/package/2006/relationships">`)
	for i := 1; i <= n; i++ {
		fmt.Fprintf(&pr, `<p:sldId id="%d" r:id="rId%d"/>`, 255+i, i)
		fmt.Fprintf(&rels, `<Relationship Id="rId%d" Type="http://schemas.openxmlformats.org/officeDocument/2006/relationships/slide" Target="slides/slide%d.xml"/>`, i, i)
	}
	pr.WriteString(`</p:sldIdLst><p:sldSz cx="9144000" cy="6858000"/></p:presentation>`)
	rels.WriteString(`</Relationships>`)
	p.Add("ppt/presentation.xml", pr.String())
	p.Add("ppt/_rels/presentation.xml.rels", rels.String())
	for i := 1; i <= n; i++ {
		var s strings.Builder
		s.WriteString(xmlDecl + `<p:sld xmlns:a="http://schemas.openxmlformats.org/drawingml/2006/main" xmlns:r="http://schemas.openxmlformats.org/officeDocument/2006/relationships" xmlns:p="http://schemas.openxmlformats.org/presentationml/2006/main"><p:cSld><p:spTree><p:nvGrpSpPr><p:cNvPr id="1" name=""/><p:cNvGrpSpPr/><p:nvPr/></p:nvGrpSpPr><p:grpSpPr/>`)
		shape := func(id int, ph string, paras int) {
			fmt.Fprintf(&s, `<p:sp><p:nvSpPr><p:cNvPr id="%d" name="Shape %d"/><p:cNvSpPr/><p:nvPr>`, id, id)
			if ph != "" {
				fmt.Fprintf(&s, `<p:ph type="%s"/>`, ph)
			}
			fmt.Fprintf(&s, `</p:nvPr></p:nvSpPr><p:spPr><a:xfrm><a:off x="%d" y="%d"/><a:ext cx="8000000" cy="1000000"/></a:xfrm></p:spPr><p:txBody><a:bodyPr/>`, 100000*id, 500000*id)
			for k := 0; k < paras; k++ {
				lvl := ""
				if r.Pct(30) {
					lvl = fmt.Sprintf(`<a:pPr lvl="%d"/>`, r.Intn(3))
				}
				s.WriteString(`<a:p>` + lvl + `<a:r><a:rPr lang="en-US"/><a:t>` + xmlEsc(phrase(r, 1+r.Intn(4))) + `</a:t></a:r>`)
				if r.Pct(20) {
					s.WriteString(`<a:br/><a:r><a:t>` + xmlEsc(phrase(r, 1)) + `</a:t></a:r>`)
				}
				s.WriteString(`</a:p>`)
			}
			s.WriteString(`</p:txBody></p:sp>`)
		}
		shape(2, "title", 1)
		for k, m := 0, r.Intn(3); k < m; k++ {
			shape(3+k, sim.Pick(r, []string{"", "body", "ftr", "sldNum", "dt"}), 1+r.Intn(3))
		}
		if r.Pct(30) {
			s.WriteString(`<p:graphicFrame><p:nvGraphicFramePr><p:cNvPr id="9" name="Table"/><p:cNvGraphicFramePr/><p:nvPr/></p:nvGraphicFramePr><p:xfrm><a:off x="0" y="0"/><a:ext cx="100" cy="100"/></p:xfrm><a:graphic><a:graphicData uri="http://schemas.openxmlformats.org/drawingml/2006/table"><a:tbl><a:tblGrid><a:gridCol w="100"/><a:gridCol w="100"/></a:tblGrid>`)
			for y := 0; y < 2; y++ {
				s.WriteString(`<a:tr h="10">`)
				for x := 0; x < 2; x++ {
					s.WriteString(`<a:tc><a:txBody><a:bodyPr/><a:p><a:r><a:t>` + xmlEsc(phrase(r, 1)) + `</a:t></a:r></a:p></a:txBody></a:tc>`)
				}
				s.WriteString(`</a:tr>`)
			}
			s.WriteString(`</a:tbl></a:graphicData></a:graphic></p:graphicFrame>`)
		}
		s.WriteString(`</p:spTree></p:cSld></p:sld>`)
		p.Add(fmt.Sprintf("ppt/slides/slide%d.xml", i), s.String())
		if r.Pct(40) {
			p.Add(fmt.Sprintf("ppt/slides/_rels/slide%d.xml.rels", i), xmlDecl+fmt.Sprintf(`<Relationships xmlns="http://schemas.openxmlformats.org/package/2006/relationships"><Relationship Id="rId1" Type="http://schemas.openxmlformats.org/officeDocument/2006/relationships/notesSlide" Target="../notesSlides/notesSlide%d.xml"/></Relationships>`, i))
			p.Add(fmt.Sprintf("ppt/notesSlides/notesSlide%d.xml", i), xmlDecl+`<p:notes xmlns:a="http://schemas.openxmlformats.org/drawingml/2006/main" xmlns:p="http://schemas.openxmlformats.org/presentationml/2006/main"><p:cSld><p:spTree><p:sp><p:nvSpPr><p:cNvPr id="2" name="Notes"/><p:cNvSpPr/><p:nvPr><p:ph type="body"/></p:nvPr></p:nvSpPr><p:txBody><a:bodyPr/><a:p><a:r><a:t>Note `+xmlEsc(phrase(r, 2))+`</a:t></a:r></a:p></p:txBody></p:sp></p:spTree></p:cSld></p:notes>`)
		}
	}
	if r.Pct(40) {
		p.Members = shuffleMembers(p.Members, r)
	}
	return p
}
