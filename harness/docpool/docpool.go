// Package docpool provides seeded pools of documents of every format and the
// operation alphabet (public entry points of tabula rendered to canonical
// bytes) that several property harnesses share.
package docpool

import (
	"fmt"
	"os"
	"path/filepath"
	"strconv"
	"strings"

	"github.com/tsawler/tabula"
	"github.com/tsawler/tabula/contentstream"
	"github.com/tsawler/tabula/docx"
	"github.com/tsawler/tabula/htmldoc"
	"github.com/tsawler/tabula/odt"
	"github.com/tsawler/tabula/pptx"
	"github.com/tsawler/tabula/rag"
	"github.com/tsawler/tabula/xlsx"
	"github.com/tsawler/tabula/reader"
	"github.com/tsawler/tabula/text"
	"github.com/tsawler/tabula/zzharness/faults"
	"github.com/tsawler/tabula/zzharness/pdfw"
	"github.com/tsawler/tabula/zzharness/sim"
	"github.com/tsawler/tabula/zzsimrt"
)

// Doc is one document image.
type Doc struct {
	Kind string // pdf | cs | html | docx | odt | xlsx | pptx | epub
	Ext  string
	Data []byte
	Note string
}

// Pool is a lazily generated, seeded set of documents.
type Pool struct {
	seed uint64
}

func New(seed uint64) *Pool { return &Pool{seed: seed} }

// layout of a pool: fixed slots per kind so that Doc(i) is independent of other slots
var slots = []string{
	"pdf", "pdf", "pdf", "pdf", "pdf", "pdf", "pdf", "pdf", "pdf", "pdf", "pdf", "pdf",
	"pdfdamaged", "pdfdamaged", "pdfdamaged", "pdfdamaged", "pdfdamaged", "pdfdamaged",
	"cs", "cs", "cs", "cs", "cs", "cs", "cs", "cs", "cs", "cs",
	"html", "html", "html", "html", "html", "html",
}

// ExtraSlots lets other packages (format generators) register more kinds.
var ExtraSlots []string

// Generators for kinds beyond the built-in ones: kind -> func(rand) (data, ext).
var Generators = map[string]func(r *sim.Rand) ([]byte, string){}

func allSlots() []string { return append(append([]string{}, slots...), ExtraSlots...) }

func (p *Pool) Size() int { return len(allSlots()) }

func (p *Pool) Kind(i int) string { return allSlots()[i] }

func (p *Pool) Doc(i int) Doc {
	kind := allSlots()[i]
	r := sim.NewRand(sim.Mix(p.seed ^ sim.Mix(uint64(i)+77)))
	switch kind {
	case "pdf":
		sp := pdfw.RandomSpec(r)
		// CR-only line ends make every cross-reference table unreadable for the
		// library (a C01 matter); keep them rare here so that extraction really runs
		if sp.EOL == 2 && r.Pct(80) {
			sp.EOL = 0
		}
		g := pdfw.Generate(sp)
		return Doc{Kind: "pdf", Ext: ".pdf", Data: g.Built.Bytes, Note: strings.Join(sp.Features(), ",")}
	case "pdfdamaged":
		return damagedPDF(r)
	case "cs":
		return Doc{Kind: "cs", Ext: ".cs", Data: ContentStream(r)}
	case "html":
		return Doc{Kind: "html", Ext: ".html", Data: []byte(SmallHTML(r))}
	}
	if g, ok := Generators[kind]; ok {
		data, ext := g(r)
		return Doc{Kind: kind, Ext: ext, Data: data}
	}
	panic("docpool: unknown kind " + kind)
}

var fileOps = []string{"file.text", "file.markdown", "file.document", "file.jsonl", "file.csv", "file.json", "file.pagecount",
	"file.markdown.toc", "fmt.reader.sequence", "ext.afterfail"}
var pdfOps = []string{"file.text", "file.markdown", "file.document", "file.jsonl", "file.csv", "file.fragments", "file.analyze",
	"file.text.bycolumn", "file.text.nohf", "file.lines", "file.paragraphs", "file.pagecount",
	"reader.repeat.fragments", "reader.repeat.markdown", "ext.repeat.text", "ext.repeat.markdown", "ext.repeat.jsonl", "coll.sequence", "file.markdown.toc", "ext.afterfail"}

func (p *Pool) OpsFor(i int) []string {
	switch p.Kind(i) {
	case "pdf":
		return pdfOps
	case "pdfdamaged":
		return damagedOps
	case "cs":
		return []string{"cs.parse", "cs.extract"}
	case "html", "htmlrich":
		return []string{"html.text", "html.markdown", "file.text", "file.markdown", "file.document", "file.jsonl", "file.markdown.toc", "fmt.reader.sequence", "ext.afterfail"}
	case "officedamaged":
		return []string{"file.text", "file.markdown", "file.document", "file.jsonl", "fmt.reader.sequence"}
	}
	return fileOps
}

// operations on damaged documents: failing calls are the ones that leave state behind
var damagedOps = []string{"file.text", "file.markdown", "file.fragments", "file.jsonl", "file.pagecount",
	"reader.repeat.text", "reader.repeat.text", "reader.repeat.fragments", "reader.repeat.markdown"}

// damagedPDF: a valid document from the independent writer with one fault of the
// C02 catalogue applied, biased towards the faults that make a later step fail
// half way: a corrupted stream body, a reference to a missing object.
func damagedPDF(r *sim.Rand) Doc {
	sp := pdfw.RandomSpec(r)
	sp.EOL = 0
	sp.Pages = 1 + r.Intn(3)
	sp.Lines = 1 + r.Intn(4)
	sp.BigStream = 0
	sp.Bulk = 0
	if r.Pct(60) {
		sp.Filter = 4 + r.Intn(3) // filter arrays
	}
	if r.Pct(50) {
		sp.FormXObj = true
	}
	all := faults.EnumPDFFields(sp)
	var pick []faults.Fault
	want := sim.Pick(r, []string{"stream-body", "stream-body", "missing-ref", "missing-ref", "any", "objstm"})
	// object stream containers of the document (their header is what a member lookup parses first)
	conts := map[int64]bool{}
	if built := pdfw.Generate(sp).Built; built != nil && len(built.Model) > 0 {
		for num, e := range built.Model[len(built.Model)-1] {
			if e.Aux == "ObjStm" {
				conts[int64(num)] = true
			}
		}
	}
	for _, f := range all {
		switch want {
		case "objstm":
			// damage in the header of an object stream (the list of member numbers and offsets)
			// or in the /N and /First that describe it: loading the stream fails half way
			if conts[f.A] && ((f.Kind == "stream-text" && f.B>>20 < 48) || (f.Kind == "field" && (strings.HasSuffix(f.S, "K:N") || strings.HasSuffix(f.S, "K:First")))) {
				pick = append(pick, f)
			}
		case "stream-body":
			if f.Kind == "stream-body" && f.B != 4 {
				pick = append(pick, f)
			}
		case "missing-ref":
			if f.Kind == "field" && f.B == 3 && (strings.Contains(f.S, "Font") || strings.Contains(f.S, "Contents") || strings.Contains(f.S, "ToUnicode") || strings.Contains(f.S, "XObject")) {
				pick = append(pick, f)
			}
		default:
			pick = append(pick, f)
		}
	}
	if len(pick) == 0 {
		pick = all
	}
	f := sim.Pick(r, pick)
	return Doc{Kind: "pdfdamaged", Ext: ".pdf", Data: faults.ApplyPDFFields(sp, []faults.Fault{f}), Note: f.String()}
}

// SyncSeen reports whether the instrumenter found synchronisation primitives
// in non-test code; the lock-set race rule is exact only when there are none.
func SyncSeen() bool { return zzsimrt.SyncSeen }

// RepeatMismatch prefixes the output of a repeat operation whose repetitions disagree.
const RepeatMismatch = "REPEAT-MISMATCH"

// OpBudget is the step budget of one operation in pools (documents here are
// small; this only stops hangs on damaged pool members).
const OpBudget = 30_000_000

// RunOp executes one operation of the alphabet and renders its complete result
// (values, warnings, error) canonically.
func RunOp(t *zzsimrt.Task, op, path string, data []byte, budget int64) string {
	if budget == 0 {
		budget = OpBudget
	}
	var out string
	oc := sim.Guard(t, budget, func() error {
		out = runOp(op, path, data)
		return nil
	})
	if oc.Bad() {
		out = "ABORT " + oc.Class() + " " + oc.Msg
	}
	// the directory the simulated disk happens to live in is not part of the result
	// (error texts of the os package quote the path)
	if i := strings.LastIndexByte(path, '/'); i > 0 {
		out = strings.ReplaceAll(out, path[:i+1], "<disk>/")
	}
	// results travel between processes as JSON strings, which cannot carry invalid UTF-8
	// (an error text may quote raw bytes of the file): one spelling on both sides
	return strings.ToValidUTF8(out, "\uFFFD")
}

func res(v interface{}, warnings interface{}, err error) string {
	var b strings.Builder
	if err != nil {
		b.WriteString("ERR: " + err.Error() + "\n")
	}
	if warnings != nil {
		b.WriteString("WARN: " + sim.Dump(warnings) + "\n")
	}
	switch x := v.(type) {
	case string:
		b.WriteString(x)
	default:
		b.WriteString(sim.Dump(v))
	}
	return b.String()
}

func runOp(op, path string, data []byte) string {
	switch op {
	case "cs.parse":
		ops, err := contentstream.NewParser(data).Parse()
		return res(ops, nil, err)
	case "cs.extract":
		fr, err := text.NewExtractor().ExtractFromBytes(data)
		return res(fr, nil, err)
	case "html.text":
		s, w, err := tabula.FromHTMLString(string(data)).Text()
		return res(s, w, err)
	case "html.markdown":
		s, w, err := tabula.FromHTMLString(string(data)).ToMarkdown()
		return res(s, w, err)
	case "reader.repeat.text", "reader.repeat.fragments", "reader.repeat.markdown":
		// the same operation several times on ONE reader (tabula.FromReader leaves the reader
		// to its owner): every repetition must give the same complete result
		rd, err := reader.Open(path)
		if err != nil {
			return res("", nil, err)
		}
		defer rd.Close()
		once := func() string {
			e := tabula.FromReader(rd)
			switch op {
			case "reader.repeat.fragments":
				f, w, err := e.Fragments()
				return res(f, w, err)
			case "reader.repeat.markdown":
				s, w, err := e.ToMarkdown()
				return res(s, w, err)
			}
			s, w, err := e.Text()
			return res(s, w, err)
		}
		first := once()
		second := once()
		rd.ClearCache()
		third := once()
		if first != second || first != third {
			a, b := sim.DiffContext(first, second)
			if first == second {
				a, b = sim.DiffContext(first, third)
			}
			return RepeatMismatch + " first: " + a + " later: " + b
		}
		return first
	case "ext.repeat.text", "ext.repeat.markdown", "ext.repeat.jsonl":
		// the same terminal operation several times on ONE configured extractor value (options
		// and a page selection spelled out of order): every repetition gives the same text,
		// markdown and chunks. The warning list is left out: an Extractor collects warnings
		// over its lifetime (the second call returns the first call's warnings again), which
		// is observed and documented, not judged under this property
		n, err := tabula.Open(path).PageCount()
		if err != nil {
			return res("", nil, err)
		}
		e := tabula.Open(path).JoinParagraphs()
		switch {
		case n >= 3:
			e = e.Pages(n, 2, 2)
		case n == 2:
			e = e.Pages(2, 1)
		default:
			e = e.PageRange(1, 1)
		}
		once := func() string {
			switch op {
			case "ext.repeat.markdown":
				s, _, err := e.ToMarkdown()
				return res(s, nil, err)
			case "ext.repeat.jsonl":
				cc, _, err := e.Chunks()
				if err != nil || cc == nil {
					return res("", nil, err)
				}
				s, err := cc.ToJSONL()
				return res(s, nil, err)
			}
			s, _, err := e.Text()
			return res(s, nil, err)
		}
		first := once()
		second := once()
		third := once()
		if first != second || first != third {
			a, b := sim.DiffContext(first, second)
			if first == second {
				a, b = sim.DiffContext(first, third)
			}
			return RepeatMismatch + " first: " + a + " later: " + b
		}
		return first
	case "file.markdown.toc":
		o := rag.RAGOptimizedMarkdownOptions()
		o.IncludeTableOfContents = true
		s, w, err := tabula.Open(path).ToMarkdownWithOptions(o)
		return res(s, w, err)
	case "ext.afterfail":
		// an extractor whose first operation fails because the file is empty at that moment,
		// asked again once the file is whole: it answers as a new extractor does
		whole, rerr := os.ReadFile(path)
		if rerr != nil {
			return res("", nil, rerr)
		}
		p2 := filepath.Join(filepath.Dir(path), "afterfail-"+filepath.Base(path))
		defer os.Remove(p2)
		if werr := os.WriteFile(p2, nil, 0o644); werr != nil {
			return res("", nil, werr)
		}
		e := tabula.Open(p2)
		_, err0 := e.PageCount()
		if werr := os.WriteFile(p2, whole, 0o644); werr != nil {
			return res("", nil, werr)
		}
		s1, _, err1 := e.Text()
		s2, _, err2 := tabula.Open(p2).Text()
		first, second := res(s1, nil, err1), res(s2, nil, err2)
		first = strings.ReplaceAll(first, p2, "<copy>")
		second = strings.ReplaceAll(second, p2, "<copy>")
		if err0 == nil {
			// an empty file is a document of this format: the extractor legitimately keeps
			// what it read then; the scenario needs a first call that fails
			return second
		}
		if first != second {
			a, b := sim.DiffContext(second, first)
			return RepeatMismatch + " first: " + a + " later: " + b + fmt.Sprintf(" (first call failed: %v)", err0 != nil)
		}
		return first
	case "fmt.reader.sequence":
		// the format's own reader, opened once and asked several things, some of them twice
		type rdr interface {
			Text() (string, error)
			Markdown() (string, error)
		}
		tocOpts := rag.RAGOptimizedMarkdownOptions()
		tocOpts.IncludeTableOfContents = true
		var r rdr
		var ragMD func() (string, error)
		var closeFn func()
		switch strings.ToLower(filepath.Ext(path)) {
		case ".docx":
			x, err := docx.Open(path)
			if err != nil {
				return res("", nil, err)
			}
			r, closeFn = x, func() { x.Close() }
			ragMD = func() (string, error) { return x.MarkdownWithRAGOptions(docx.ExtractOptions{}, tocOpts) }
		case ".odt":
			x, err := odt.Open(path)
			if err != nil {
				return res("", nil, err)
			}
			r, closeFn = x, func() { x.Close() }
			ragMD = func() (string, error) { return x.MarkdownWithRAGOptions(odt.ExtractOptions{}, tocOpts) }
		case ".xlsx":
			x, err := xlsx.Open(path)
			if err != nil {
				return res("", nil, err)
			}
			r, closeFn = x, func() { x.Close() }
			ragMD = func() (string, error) { return x.MarkdownWithRAGOptions(xlsx.ExtractOptions{}, tocOpts) }
		case ".pptx":
			x, err := pptx.Open(path)
			if err != nil {
				return res("", nil, err)
			}
			r, closeFn = x, func() { x.Close() }
			ragMD = func() (string, error) { return x.MarkdownWithRAGOptions(pptx.ExtractOptions{}, tocOpts) }
		case ".html", ".htm":
			x, err := htmldoc.Open(path)
			if err != nil {
				return res("", nil, err)
			}
			r, closeFn = x, func() { x.Close() }
			ragMD = func() (string, error) { return x.MarkdownWithRAGOptions(htmldoc.ExtractOptions{}, tocOpts) }
		default:
			s, w, err := tabula.Open(path).Text()
			return res(s, w, err)
		}
		defer closeFn()
		m1, e1 := r.Markdown()
		g1, e2 := ragMD()
		t1, e3 := r.Text()
		g2, e4 := ragMD()
		m2, e5 := r.Markdown()
		t2, e6 := r.Text()
		a, b := res(m1, nil, e1)+"\n--\n"+res(g1, nil, e2)+"\n--\n"+res(t1, nil, e3), res(m2, nil, e5)+"\n--\n"+res(g2, nil, e4)+"\n--\n"+res(t2, nil, e6)
		if a != b {
			x, y := sim.DiffContext(a, b)
			return RepeatMismatch + " first: " + x + " later: " + y
		}
		return a
	case "coll.sequence":
		// one chunk collection rendered, exported in other formats, and rendered again: an
		// export reads the collection, the second rendering equals the first
		cc, _, err := tabula.Open(path).Chunks()
		if err != nil || cc == nil {
			return res("", nil, err)
		}
		first, err1 := cc.ToJSONL()
		_, _ = cc.ToCSV()
		_, _ = cc.ToTSV()
		_ = cc.ToMarkdown()
		_, _ = cc.ToJSON()
		second, err2 := cc.ToJSONL()
		if first != second || (err1 == nil) != (err2 == nil) {
			a, b := sim.DiffContext(first, second)
			return RepeatMismatch + " first: " + a + " later: " + b
		}
		return res(first, nil, err1)
	case "file.text":
		s, w, err := tabula.Open(path).Text()
		return res(s, w, err)
	case "file.text.bycolumn":
		s, w, err := tabula.Open(path).ByColumn().Text()
		return res(s, w, err)
	case "file.text.nohf":
		s, w, err := tabula.Open(path).ExcludeHeadersAndFooters().JoinParagraphs().Text()
		return res(s, w, err)
	case "file.markdown":
		s, w, err := tabula.Open(path).ToMarkdown()
		return res(s, w, err)
	case "file.document":
		d, w, err := tabula.Open(path).Document()
		return res(d, w, err)
	case "file.fragments":
		f, w, err := tabula.Open(path).Fragments()
		return res(f, w, err)
	case "file.analyze":
		a, err := tabula.Open(path).Analyze()
		return res(a, nil, err)
	case "file.lines":
		a, err := tabula.Open(path).Lines()
		return res(a, nil, err)
	case "file.paragraphs":
		a, err := tabula.Open(path).Paragraphs()
		return res(a, nil, err)
	case "file.pagecount":
		e := tabula.Open(path)
		n, err := e.PageCount()
		e.Close()
		return res(strconv.Itoa(n), nil, err)
	case "file.jsonl", "file.csv", "file.json":
		c, w, err := tabula.Open(path).Chunks()
		if err != nil || c == nil {
			return res("", w, err)
		}
		var s string
		var e2 error
		switch op {
		case "file.jsonl":
			s, e2 = c.ToJSONL()
		case "file.csv":
			s, e2 = c.ToCSV()
		default:
			s, e2 = c.ToJSON()
		}
		return res(s, w, e2)
	}
	return "unknown op " + op
}

// ---------------------------------------------------------------------------
// content streams and small HTML
// ---------------------------------------------------------------------------

// ContentStream draws a content stream: valid programs, operand-only inputs,
// inputs that end in the middle of an operand, and inputs that fail to parse —
// the calls that can leave state behind.
func ContentStream(r *sim.Rand) []byte {
	var b strings.Builder
	prog := func(n int) {
		for i := 0; i < n; i++ {
			switch r.Intn(7) {
			case 0:
				fmt.Fprintf(&b, "BT /F%d %d Tf %d %d Td (w%d) Tj ET\n", 1+r.Intn(3), 8+r.Intn(10), r.Intn(500), r.Intn(700), r.Intn(1000))
			case 1:
				fmt.Fprintf(&b, "%d %d %d %d re f\n", r.Intn(500), r.Intn(500), r.Intn(90), r.Intn(90))
			case 2:
				fmt.Fprintf(&b, "q 1 0 0 1 %d %d cm Q\n", r.Intn(100), r.Intn(100))
			case 3:
				fmt.Fprintf(&b, "BT [(a%d) %d (b) -%d (c)] TJ ET\n", r.Intn(100), r.Intn(50), r.Intn(50))
			case 4:
				fmt.Fprintf(&b, "0.%d 0.%d 0.%d rg\n", r.Intn(10), r.Intn(10), r.Intn(10))
			case 5:
				fmt.Fprintf(&b, "/GS%d gs << /K %d >> /N%d BDC EMC\n", r.Intn(4), r.Intn(9), r.Intn(9))
			default:
				fmt.Fprintf(&b, "<%04x> Tj\n", r.Intn(65536))
			}
		}
	}
	switch r.Intn(8) {
	case 0, 1, 2:
		prog(1 + r.Intn(8))
	case 3: // operands only
		for i, n := 0, 1+r.Intn(5); i < n; i++ {
			fmt.Fprintf(&b, "%d ", r.Intn(1000))
		}
	case 4: // program, then left-over operands
		prog(1 + r.Intn(4))
		fmt.Fprintf(&b, "%d 0.5 (left%d)", r.Intn(100), r.Intn(100))
	case 5: // ends in the middle of an operand
		prog(r.Intn(3))
		b.WriteString(sim.Pick(r, []string{"1 2 (unterminated", "3 [4 5", "7 << /A 1", "/Nm 9 <4142"}))
	case 6: // fails to parse after some operands
		fmt.Fprintf(&b, "%d %d ", r.Intn(9), r.Intn(9))
		b.WriteString(sim.Pick(r, []string{"<zz> Tj", ") Tj", "] TJ", ">> BDC"}))
	default:
		prog(2)
		b.WriteString("BT (tail) Tj")
	}
	return []byte(b.String())
}

// SmallHTML draws a small HTML document (the full DOM generator lives in htmlw).
func SmallHTML(r *sim.Rand) string {
	var b strings.Builder
	b.WriteString("<html><head><title>T" + strconv.Itoa(r.Intn(100)) + "</title><style>p{color:red}</style></head><body>")
	if r.Bool() {
		b.WriteString("<nav><a href=\"/\">Home</a> <a href=\"/x\">X</a></nav>")
	}
	n := 1 + r.Intn(6)
	for i := 0; i < n; i++ {
		switch r.Intn(5) {
		case 0:
			fmt.Fprintf(&b, "<h%d>Heading %d</h%d>", 1+r.Intn(3), r.Intn(100), 1+r.Intn(3))
		case 1:
			fmt.Fprintf(&b, "<p>Paragraph %d with &amp; entity and <b>bold %d</b>.</p>", r.Intn(100), r.Intn(100))
		case 2:
			b.WriteString("<ul>")
			for j, m := 0, 1+r.Intn(4); j < m; j++ {
				fmt.Fprintf(&b, "<li>item %d</li>", r.Intn(100))
			}
			b.WriteString("</ul>")
		case 3:
			fmt.Fprintf(&b, "<table><tr><th>A</th><th>B</th></tr><tr><td>%d</td><td>x|%d</td></tr></table>", r.Intn(100), r.Intn(100))
		default:
			fmt.Fprintf(&b, "<div class=\"c%d\"><p>nested %d</p><script>var x=%d;</script></div>", r.Intn(5), r.Intn(100), r.Intn(9))
		}
	}
	if r.Bool() {
		b.WriteString("<footer>Footer text</footer>")
	}
	b.WriteString("</body></html>")
	return b.String()
}
