package docpool

import (
	"github.com/tsawler/tabula/zzharness/officew"
	"github.com/tsawler/tabula/zzharness/sim"
)

func init() {
	Generators["docx"] = func(r *sim.Rand) ([]byte, string) { return officew.DOCX(r).Bytes(), ".docx" }
	Generators["xlsx"] = func(r *sim.Rand) ([]byte, string) { return officew.XLSX(r).Bytes(), ".xlsx" }
	Generators["pptx"] = func(r *sim.Rand) ([]byte, string) { return officew.PPTX(r).Bytes(), ".pptx" }
	Generators["odt"] = func(r *sim.Rand) ([]byte, string) { return officew.ODT(r).Bytes(), ".odt" }
	Generators["epub"] = func(r *sim.Rand) ([]byte, string) { return officew.EPUB(r).Bytes(), ".epub" }
	Generators["htmlpage"] = func(r *sim.Rand) ([]byte, string) { return officew.HTML(r), ".html" }
	for _, k := range []string{"docx", "xlsx", "pptx", "odt", "epub", "htmlpage"} {
		for i := 0; i < 4; i++ {
			ExtraSlots = append(ExtraSlots, k)
		}
	}
}
