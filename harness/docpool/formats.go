package docpool

import (
	"fmt"
	"strconv"
	"strings"

	"github.com/tsawler/tabula/zzharness/faults"
	"github.com/tsawler/tabula/zzharness/officew"
	"github.com/tsawler/tabula/zzharness/sim"
)

func init() {
	Generators["docx"] = func(r *sim.Rand) ([]byte, string) { return officew.DOCX(r).Bytes(), ".docx" }
	Generators["xlsx"] = func(r *sim.Rand) ([]byte, string) { return officew.XLSX(r).Bytes(), ".xlsx" }
	Generators["pptx"] = func(r *sim.Rand) ([]byte, string) { return officew.PPTX(r).Bytes(), ".pptx" }
	Generators["odt"] = func(r *sim.Rand) ([]byte, string) { return officew.ODT(r).Bytes(), ".odt" }
	Generators["epub"] = func(r *sim.Rand) ([]byte, string) { return officew.EPUB(r).Bytes(), ".epub" }
	Generators["htmlpage"] = func(r *sim.Rand) ([]byte, string) { return officew.HTML(r), ".html" }
	Generators["officedamaged"] = damagedOffice
	Generators["htmlrich"] = func(r *sim.Rand) ([]byte, string) { return RichHTML(r), ".html" }
	for i := 0; i < 6; i++ {
		ExtraSlots = append(ExtraSlots, "officedamaged", "htmlrich")
	}
	for _, k := range []string{"docx", "xlsx", "pptx", "odt", "epub", "htmlpage"} {
		for i := 0; i < 4; i++ {
			ExtraSlots = append(ExtraSlots, k)
		}
	}
}

// damagedOffice: a valid package from the independent writers with one fault of the
// container / markup catalogue applied. What such a document yields is not judged, only
// that it is the same every time (history, interleaving, map order).
func damagedOffice(r *sim.Rand) ([]byte, string) {
	kind := sim.Pick(r, []string{"docx", "xlsx", "xlsx", "pptx", "odt", "epub"})
	var p *officew.Package
	switch kind {
	case "docx":
		p = officew.DOCX(r)
	case "xlsx":
		p = officew.XLSX(r)
	case "pptx":
		p = officew.PPTX(r)
	case "odt":
		p = officew.ODT(r)
	default:
		p = officew.EPUB(r)
	}
	var all []faults.Fault
	for _, m := range p.Members {
		if strings.HasSuffix(m.Name, ".xml") || strings.HasSuffix(m.Name, ".rels") || strings.HasSuffix(m.Name, ".opf") || strings.HasSuffix(m.Name, ".xhtml") {
			all = append(all, faults.EnumMarkup(m.Data, m.Name)...)
		}
	}
	if r.Pct(25) || len(all) == 0 {
		all = append(all, faults.EnumZip(p)...)
	}
	all0 := all
	if r.Pct(35) {
		// the references that hold a package together: namespaces, relationship ids and
		// targets in the main part and the relationship parts
		var refs []faults.Fault
		for _, f := range all {
			main := strings.Contains(f.M, "workbook") || strings.Contains(f.M, "document") || strings.Contains(f.M, "presentation") ||
				strings.Contains(f.M, ".rels") || strings.Contains(f.M, ".opf") || strings.Contains(f.M, "content.xml")
			if main && (f.Kind == "path-attr" || f.Kind == "idref-attr") {
				refs = append(refs, f)
			}
		}
		if len(refs) > 0 {
			all = refs
		}
		if r.Pct(50) {
			var fam []faults.Fault
			for _, f := range all0 {
				main := strings.Contains(f.M, "workbook") || strings.Contains(f.M, "document") || strings.Contains(f.M, "presentation") ||
					strings.Contains(f.M, ".rels") || strings.Contains(f.M, ".opf")
				if f.Kind == "idref-family-renamed" && main {
					fam = append(fam, f)
				}
			}
			if len(fam) > 0 {
				all = fam
			}
		}
	}
	return faults.ApplyPackage(p, []faults.Fault{sim.Pick(r, all)}), "." + kind
}

var richNames = []string{"main-menu", "mainMenu", "MainMenu", "main_menu", "side-bar", "sideBar", "SIDEBAR", "sidebar", "foot-note", "footNote", "footer",
	"Footer", "nav-bar", "navBar", "content", "article-body", "articleBody", "bread-crumb", "breadCrumb", "social-links", "socialLinks", "story"}

// RichHTML: blocks whose class and id names come in several spellings of the same words
// (hyphenated, camel case, upper case): whatever is decided about one spelling in one
// document is not to be carried over to another spelling in the next document.
func RichHTML(r *sim.Rand) []byte {
	var b strings.Builder
	b.WriteString("<!DOCTYPE html><html><head><title>rich</title></head><body><p>lead " + strconv.Itoa(r.Intn(1000)) + "</p>")
	for i, n := 0, 3+r.Intn(6); i < n; i++ {
		attr := sim.Pick(r, []string{"class", "id"})
		name := sim.Pick(r, richNames)
		if attr == "class" && r.Pct(30) {
			name += " x" + strconv.Itoa(r.Intn(9))
		}
		fmt.Fprintf(&b, "<div %s=\"%s\"><p>block %d says %s</p><ul><li>item %d</li><li><a href=\"/a%d\">link %d</a></li></ul></div>", attr, name, i, sim.Pick(r, []string{"alpha", "bravo", "charlie"}), r.Intn(100), i, i)
	}
	b.WriteString("<h2>End " + strconv.Itoa(r.Intn(100)) + "</h2></body></html>")
	return []byte(b.String())
}
