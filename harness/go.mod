// This go.mod exists only so that the parent module (verif) ignores this
// directory. The sources here are copied into the scratch copy of the tabula
// module as github.com/tsawler/tabula/zzharness/... and built there with
// tabula's own go.mod (language version go 1.18). This file is not copied.
module zzignore

go 1.18
