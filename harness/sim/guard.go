package sim

import (
	"fmt"
	"os"
	"path/filepath"
	"runtime/debug"
	"sort"
	"strings"

	"github.com/tsawler/tabula/zzsimrt"
)

// Outcome of one guarded library call.
type Outcome struct {
	Kind  string `json:"kind"`            // ok | error | panic | steps | alloc | mem
	Where string `json:"where,omitempty"` // innermost tabula function (failures only)
	Msg   string `json:"msg,omitempty"`
	Steps int64  `json:"steps"`
}

// Bad reports whether the outcome violates "returns a value or an error within bounds".
func (o Outcome) Bad() bool {
	return o.Kind == "panic" || o.Kind == "steps" || o.Kind == "alloc" || o.Kind == "mem"
}

// Class is the verdict class of a bad outcome: (kind, tabula function).
func (o Outcome) Class() string { return o.Kind + "@" + o.Where }

const modPrefix = "github.com/tsawler/tabula/"

// Guard runs f as one operation of task t under a step budget and converts
// panics and simulator aborts into an Outcome.
func Guard(t *zzsimrt.Task, budget int64, f func() error) (out Outcome) {
	t.BeginOp(budget)
	defer func() {
		out.Steps = t.Steps
		t.Budget = 0
		if r := recover(); r != nil {
			if a, ok := r.(*zzsimrt.Abort); ok {
				out.Kind = a.Kind
				out.Where = NormFunc(zzsimrt.SiteFunc(a.Site))
				out.Msg = a.Detail
				return
			}
			out.Kind = "panic"
			out.Msg = trim(fmt.Sprint(r), 200)
			out.Where = innermostFrame(string(debug.Stack()))
		}
	}()
	if err := f(); err != nil {
		out.Kind = "error"
		out.Msg = trim(err.Error(), 200)
		return
	}
	out.Kind = "ok"
	return
}

func trim(s string, n int) string {
	if len(s) > n {
		return s[:n] + "..."
	}
	return s
}

// NormFunc renders a function name the same way whether it came from a stack
// trace or from the site table: module prefix removed, "(*T)" written as "T".
func NormFunc(fn string) string {
	fn = strings.TrimPrefix(fn, modPrefix)
	fn = strings.TrimPrefix(fn, "github.com/tsawler/")
	fn = strings.ReplaceAll(fn, "(*", "")
	fn = strings.ReplaceAll(fn, ")", "")
	if i := strings.Index(fn, "["); i > 0 {
		fn = fn[:i]
	}
	return fn
}

// innermostFrame finds the first tabula frame (not simulator, not harness) in a
// stack trace printed by debug.Stack.
func innermostFrame(stack string) string {
	for _, line := range strings.Split(stack, "\n") {
		if !strings.HasPrefix(line, modPrefix) && !strings.HasPrefix(line, "github.com/tsawler/tabula.") {
			continue
		}
		if strings.Contains(line, "/zzsimrt.") || strings.Contains(line, "/zzharness/") {
			continue
		}
		fn := line
		if i := strings.LastIndex(fn, "("); i > 0 {
			// strip the argument list (last parenthesis group)
			fn = fn[:i]
		}
		return NormFunc(fn)
	}
	// a panic in a dependency reached without any tabula frame
	for _, line := range strings.Split(stack, "\n") {
		if strings.Contains(line, "(") && !strings.HasPrefix(line, "\t") && !strings.HasPrefix(line, "runtime") &&
			!strings.HasPrefix(line, "panic(") && !strings.HasPrefix(line, "goroutine") &&
			!strings.Contains(line, "/zzsimrt.") && !strings.Contains(line, "/zzharness/") && !strings.HasPrefix(line, "runtime/debug") {
			if i := strings.LastIndex(line, "("); i > 0 {
				return line[:i]
			}
		}
	}
	return "?"
}

// ---------------------------------------------------------------------------
// Simulated disk and descriptor ledger
// ---------------------------------------------------------------------------

// Disk is a directory that holds the file images of one worker.
type Disk struct {
	Dir string
	seq int
}

func NewDisk() (*Disk, error) {
	base := os.Getenv("ZZSIM_DISK")
	if base == "" {
		base = os.TempDir()
	}
	dir, err := os.MkdirTemp(base, "simdisk-")
	if err != nil {
		return nil, err
	}
	// the ledger compares resolved paths
	if r, err := filepath.EvalSymlinks(dir); err == nil {
		dir = r
	}
	return &Disk{Dir: dir}, nil
}

func (d *Disk) Close() { os.RemoveAll(d.Dir) }

// Put writes an image under a fresh name with the given extension and returns the path.
func (d *Disk) Put(ext string, data []byte) string {
	d.seq++
	p := filepath.Join(d.Dir, fmt.Sprintf("f%06d%s", d.seq, ext))
	if err := os.WriteFile(p, data, 0o644); err != nil {
		panic(fmt.Sprintf("simdisk: %v", err))
	}
	return p
}

// PutNamed writes (or overwrites) a named image.
func (d *Disk) PutNamed(name string, data []byte) string {
	p := filepath.Join(d.Dir, name)
	if err := os.WriteFile(p, data, 0o644); err != nil {
		panic(fmt.Sprintf("simdisk: %v", err))
	}
	return p
}

// Append appends to an image (incremental update by the independent writer).
func (d *Disk) Append(path string, data []byte) {
	f, err := os.OpenFile(path, os.O_APPEND|os.O_WRONLY, 0o644)
	if err != nil {
		panic(fmt.Sprintf("simdisk: %v", err))
	}
	if _, err := f.Write(data); err != nil {
		panic(fmt.Sprintf("simdisk: %v", err))
	}
	f.Close()
}

func (d *Disk) Remove(path string) { os.Remove(path) }

// Reset removes all images.
func (d *Disk) Reset() {
	ents, _ := os.ReadDir(d.Dir)
	for _, e := range ents {
		os.RemoveAll(filepath.Join(d.Dir, e.Name()))
	}
}

// OpenFDs lists the descriptors of this process that point into the disk
// directory (the ledger), as sorted target paths relative to the directory.
func (d *Disk) OpenFDs() []string {
	ents, err := os.ReadDir("/proc/self/fd")
	if err != nil {
		return nil
	}
	var out []string
	for _, e := range ents {
		t, err := os.Readlink("/proc/self/fd/" + e.Name())
		if err != nil {
			continue
		}
		t = strings.TrimSuffix(t, " (deleted)")
		if strings.HasPrefix(t, d.Dir+"/") {
			out = append(out, strings.TrimPrefix(t, d.Dir+"/"))
		}
	}
	sort.Strings(out)
	return out
}
