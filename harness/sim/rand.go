// Package sim holds what every property harness shares: the PRNG, the case and
// result envelopes, guarded execution of library calls, canonical dumps, the
// simulated disk and the descriptor ledger.
package sim

// Rand is a splitmix64 generator. One run seed decides everything; independent
// streams are split off by name so that adding a draw to one stream does not
// shift another.
type Rand struct {
	s    uint64
	root uint64 // the seed this stream was created with: Split derives from it, not from the moving state
}

func NewRand(seed uint64) *Rand { return &Rand{s: seed, root: seed} }

func Mix(z uint64) uint64 {
	z = (z ^ (z >> 30)) * 0xBF58476D1CE4E5B9
	z = (z ^ (z >> 27)) * 0x94D049BB133111EB
	return z ^ (z >> 31)
}

func HashString(s string) uint64 {
	h := uint64(14695981039346656037)
	for i := 0; i < len(s); i++ {
		h ^= uint64(s[i])
		h *= 1099511628211
	}
	return h
}

// RunSeed derives the seed of run i of property p from VERIF_SEED.
func RunSeed(base uint64, prop string, i int) uint64 {
	s := Mix(base ^ HashString(prop) ^ Mix(uint64(i)+0x9E3779B97F4A7C15))
	if s == 0 {
		s = 1
	}
	return s
}

func (r *Rand) Uint64() uint64 {
	r.s += 0x9E3779B97F4A7C15
	return Mix(r.s)
}

// Split returns an independent stream named name. It depends on the stream's
// original seed and the name only, never on how many values were drawn before.
func (r *Rand) Split(name string) *Rand {
	s := Mix(r.root ^ HashString(name) ^ 0xD6E8FEB86659FD93)
	return &Rand{s: s, root: s}
}

// Intn returns a value in [0, n). n <= 0 yields 0.
func (r *Rand) Intn(n int) int {
	if n <= 0 {
		return 0
	}
	return int(r.Uint64() % uint64(n))
}

// Range returns a value in [lo, hi].
func (r *Rand) Range(lo, hi int) int {
	if hi <= lo {
		return lo
	}
	return lo + r.Intn(hi-lo+1)
}

// Pct is true with probability p percent.
func (r *Rand) Pct(p int) bool { return r.Intn(100) < p }

func (r *Rand) Bool() bool { return r.Uint64()&1 == 1 }

func (r *Rand) Float() float64 { return float64(r.Uint64()>>11) / (1 << 53) }

// Perm returns a permutation of 0..n-1.
func (r *Rand) Perm(n int) []int {
	p := make([]int, n)
	for i := range p {
		p[i] = i
	}
	for i := n - 1; i > 0; i-- {
		j := r.Intn(i + 1)
		p[i], p[j] = p[j], p[i]
	}
	return p
}

func Pick[T any](r *Rand, xs []T) T {
	return xs[r.Intn(len(xs))]
}

func MinInt(a, b int) int {
	if a < b {
		return a
	}
	return b
}

func MaxInt(a, b int) int {
	if a > b {
		return a
	}
	return b
}
