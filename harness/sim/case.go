package sim

import (
	"encoding/json"
)

// Case is the envelope of one simulated run. Spec is property specific and
// complete: executing a case needs nothing but the case and the code.
type Case struct {
	Prop  string          `json:"prop"`
	Seed  uint64          `json:"seed"`  // run seed (derived from VERIF_SEED, property and index)
	Index int             `json:"index"` // run index inside the batch (-1: hand-made / probe)
	Mode  string          `json:"mode"`  // property-specific configuration name
	Spec  json.RawMessage `json:"spec"`
	// Images holds materialised file bytes (base64 by encoding/json) for replay
	// files, keyed by a property-specific name. When present they are used
	// instead of regenerating from the spec.
	Images map[string][]byte `json:"images,omitempty"`
	Note   string            `json:"note,omitempty"`
}

func (c *Case) SetSpec(v interface{}) {
	b, err := json.Marshal(v)
	if err != nil {
		panic(err)
	}
	c.Spec = b
}

func (c *Case) GetSpec(v interface{}) {
	if err := json.Unmarshal(c.Spec, v); err != nil {
		panic("bad case spec: " + err.Error())
	}
}

// Result of executing one case.
type Result struct {
	Status      string           `json:"status"` // ok | violation
	Class       string           `json:"class,omitempty"`  // verdict class: minimisation keeps it fixed
	Detail      string           `json:"detail,omitempty"` // human-readable: expected / observed
	Features    []string         `json:"features,omitempty"` // features of the (minimal) failing case
	Fingerprint string           `json:"fp,omitempty"`     // distinctness key of the case
	Nontrivial  bool             `json:"nontrivial"`
	Counters    map[string]int64 `json:"counters,omitempty"`
	Steps       int64            `json:"steps"`
	Sample      interface{}      `json:"sample,omitempty"`
	Log         []string         `json:"log,omitempty"` // event log (determinism self-test)
	Executed    *Case            `json:"executed,omitempty"` // as-executed case (realised schedule) for violations
	More        []*Result        `json:"more,omitempty"`     // further violations of other classes found in the same run
}

func (r *Result) Count(name string, n int64) {
	if r.Counters == nil {
		r.Counters = map[string]int64{}
	}
	r.Counters[name] += n
}

// Known is one entry of /verif/known-findings.jsonl as handed to the worker.
type Known struct {
	Property string   `json:"property"`
	Status   string   `json:"status"` // "known" | "fixed"
	Class    string   `json:"class,omitempty"`    // exact verdict class (C02 style)
	Features []string `json:"features,omitempty"` // feature predicate (model-based checks)
	What     string   `json:"what"`
	Commit   string   `json:"commit,omitempty"`
}

// Env is what the worker gives a property harness.
type Env struct {
	Disk      *Disk
	Tier      string
	Known     []Known
	WorkerBin string // path of this binary (child processes for solo references)
	LogEvents bool
	Tick      func() // tells the runner the worker is alive (long runs)
}

// Prop is implemented by every property harness.
type Prop interface {
	ID() string
	// Generate derives the case of run `index` from the base seed.
	Generate(base uint64, index int, env *Env) *Case
	// Execute runs a case and judges it.
	Execute(c *Case, env *Env) *Result
	// Shrink proposes simpler variants of a failing case, most aggressive first.
	Shrink(c *Case) []*Case
	// Finalise embeds materialised images so the case is self-contained.
	Finalise(c *Case, env *Env)
	// Probes returns hand-made cases for the known findings of this property.
	Probes(env *Env) []*Case
}
