package sim

import (
	"fmt"
	"reflect"
	"sort"
	"strconv"
	"strings"
)

// Dump renders any value canonically: pointers are followed (never printed),
// map keys are sorted, floats use the shortest round-trip form. Two executions
// that compute the same value produce the same bytes.
func Dump(v interface{}) string {
	var b strings.Builder
	d := dumper{b: &b, seen: map[uintptr]bool{}}
	d.val(reflect.ValueOf(v), 0)
	return b.String()
}

type dumper struct {
	b    *strings.Builder
	seen map[uintptr]bool
}

func (d *dumper) val(v reflect.Value, depth int) {
	if !v.IsValid() {
		d.b.WriteString("nil")
		return
	}
	if depth > 60 {
		d.b.WriteString("<deep>")
		return
	}
	switch v.Kind() {
	case reflect.Bool:
		d.b.WriteString(strconv.FormatBool(v.Bool()))
	case reflect.Int, reflect.Int8, reflect.Int16, reflect.Int32, reflect.Int64:
		d.b.WriteString(strconv.FormatInt(v.Int(), 10))
	case reflect.Uint, reflect.Uint8, reflect.Uint16, reflect.Uint32, reflect.Uint64, reflect.Uintptr:
		d.b.WriteString(strconv.FormatUint(v.Uint(), 10))
	case reflect.Float32, reflect.Float64:
		d.b.WriteString(strconv.FormatFloat(v.Float(), 'g', -1, 64))
	case reflect.Complex64, reflect.Complex128:
		d.b.WriteString(fmt.Sprint(v.Complex()))
	case reflect.String:
		d.b.WriteString(strconv.Quote(v.String()))
	case reflect.Slice:
		if v.IsNil() {
			d.b.WriteString("nil")
			return
		}
		if v.Type().Elem().Kind() == reflect.Uint8 {
			bs := make([]byte, v.Len())
			for i := range bs {
				bs[i] = byte(v.Index(i).Uint())
			}
			d.b.WriteString("b" + strconv.Quote(string(bs)))
			return
		}
		fallthrough
	case reflect.Array:
		d.b.WriteByte('[')
		for i := 0; i < v.Len(); i++ {
			if i > 0 {
				d.b.WriteByte(' ')
			}
			d.val(v.Index(i), depth+1)
		}
		d.b.WriteByte(']')
	case reflect.Map:
		if v.IsNil() {
			d.b.WriteString("nil")
			return
		}
		type kv struct {
			k string
			v reflect.Value
		}
		var kvs []kv
		it := v.MapRange()
		for it.Next() {
			var kb strings.Builder
			kd := dumper{b: &kb, seen: d.seen}
			kd.val(it.Key(), depth+1)
			kvs = append(kvs, kv{kb.String(), it.Value()})
		}
		sort.Slice(kvs, func(i, j int) bool { return kvs[i].k < kvs[j].k })
		d.b.WriteString("map{")
		for i, e := range kvs {
			if i > 0 {
				d.b.WriteByte(' ')
			}
			d.b.WriteString(e.k)
			d.b.WriteByte(':')
			d.val(e.v, depth+1)
		}
		d.b.WriteByte('}')
	case reflect.Ptr:
		if v.IsNil() {
			d.b.WriteString("nil")
			return
		}
		p := v.Pointer()
		if d.seen[p] {
			d.b.WriteString("<cycle>")
			return
		}
		d.seen[p] = true
		d.b.WriteByte('&')
		d.val(v.Elem(), depth+1)
		delete(d.seen, p)
	case reflect.Interface:
		if v.IsNil() {
			d.b.WriteString("nil")
			return
		}
		d.b.WriteString(v.Elem().Type().String())
		d.b.WriteByte('(')
		d.val(v.Elem(), depth+1)
		d.b.WriteByte(')')
	case reflect.Struct:
		t := v.Type()
		d.b.WriteString(t.Name())
		d.b.WriteByte('{')
		for i := 0; i < v.NumField(); i++ {
			if i > 0 {
				d.b.WriteByte(' ')
			}
			d.b.WriteString(t.Field(i).Name)
			d.b.WriteByte(':')
			d.val(v.Field(i), depth+1)
		}
		d.b.WriteByte('}')
	case reflect.Func, reflect.Chan, reflect.UnsafePointer:
		if v.IsNil() {
			d.b.WriteString("nil")
		} else {
			d.b.WriteString("<" + v.Kind().String() + ">")
		}
	default:
		d.b.WriteString("<?>")
	}
}

// DiffContext returns the neighbourhood of the first difference of two strings.
func DiffContext(a, b string) (string, string) {
	i := 0
	for i < len(a) && i < len(b) && a[i] == b[i] {
		i++
	}
	cut := func(s string) string {
		lo, hi := i-60, i+100
		if lo < 0 {
			lo = 0
		}
		if hi > len(s) {
			hi = len(s)
		}
		pre := ""
		if lo > 0 {
			pre = "..."
		}
		return fmt.Sprintf("@%d %s%s", i, pre, strconv.Quote(s[lo:hi]))
	}
	return cut(a), cut(b)
}
