// Package faults is the catalogue of storage faults the simulated disk applies
// between the writer and the reader: byte-level damage (torn, short, lost,
// misdirected writes, bit rot), token-level damage of PDF / XML / HTML text,
// and container-level damage of ZIP packages. Enumerators list every single
// fault of a kind for a given image, so that small images can be covered
// exhaustively.
package faults

import (
	"sort"
	"bytes"
	"fmt"
	"io"
	"strings"

	"github.com/tsawler/tabula/zzharness/officew"
	"github.com/tsawler/tabula/zzharness/sim"
)

var errEOF = io.EOF

// Fault is one at-rest fault.
type Fault struct {
	Layer string `json:"layer"` // bytes | token | zip | xml | pdfobj
	Kind  string `json:"kind"`
	A     int64  `json:"a,omitempty"`
	B     int64  `json:"b,omitempty"`
	S     string `json:"s,omitempty"`
	M     string `json:"m,omitempty"` // zip/xml: member name
}

func (f Fault) String() string {
	s := f.Layer + "/" + f.Kind
	if f.M != "" {
		s += "[" + f.M + "]"
	}
	if f.A != 0 || f.B != 0 {
		s += fmt.Sprintf("(%d,%d)", f.A, f.B)
	}
	if f.S != "" {
		t := f.S
		if len(t) > 24 {
			t = t[:24] + "..."
		}
		s += fmt.Sprintf("%q", t)
	}
	return s
}

// KindKey is the name under which firing statistics are kept.
func (f Fault) KindKey() string { return f.Layer + "/" + f.Kind }

const Sector = 512

// ApplyBytes applies a byte- or token-layer fault to an image.
func ApplyBytes(img []byte, f Fault) []byte {
	n := int64(len(img))
	clamp := func(x int64) int64 {
		if x < 0 {
			return 0
		}
		if x > n {
			return n
		}
		return x
	}
	switch f.Kind {
	case "truncate":
		return append([]byte{}, img[:clamp(f.A)]...)
	case "zero-sector":
		out := append([]byte{}, img...)
		for i := clamp(f.A * Sector); i < clamp(f.A*Sector+Sector); i++ {
			out[i] = 0
		}
		return out
	case "drop-sector":
		s, e := clamp(f.A*Sector), clamp(f.A*Sector+Sector)
		return append(append([]byte{}, img[:s]...), img[e:]...)
	case "dup-sector":
		s, e := clamp(f.A*Sector), clamp(f.A*Sector+Sector)
		out := append([]byte{}, img[:e]...)
		out = append(out, img[s:e]...)
		return append(out, img[e:]...)
	case "swap-sectors":
		out := append([]byte{}, img...)
		s1, e1 := clamp(f.A*Sector), clamp(f.A*Sector+Sector)
		s2, e2 := clamp(f.B*Sector), clamp(f.B*Sector+Sector)
		if e1-s1 == Sector && e2-s2 == Sector {
			copy(out[s1:e1], img[s2:e2])
			copy(out[s2:e2], img[s1:e1])
		}
		return out
	case "bitflip":
		out := append([]byte{}, img...)
		if f.A >= 0 && f.A < n {
			out[f.A] ^= 1 << uint(f.B&7)
		}
		return out
	case "byteset":
		out := append([]byte{}, img...)
		if f.A >= 0 && f.A < n {
			out[f.A] = byte(f.B)
		}
		return out
	case "replace": // token layer: bytes [A, A+B) replaced by S
		s, e := clamp(f.A), clamp(f.A+f.B)
		out := append([]byte{}, img[:s]...)
		out = append(out, f.S...)
		return append(out, img[e:]...)
	case "append":
		return append(append([]byte{}, img...), f.S...)
	}
	return img
}

// ---------------------------------------------------------------------------
// enumerators
// ---------------------------------------------------------------------------

var structural = []byte("<>[]()/% \n0R-")

// EnumBytes lists byte-level single faults. Small images are covered
// exhaustively (truncation at every offset, every structural-character
// substitution at every offset that holds a structural byte); larger ones at
// token and sector boundaries.
func EnumBytes(img []byte, exhaustiveLimit int) []Fault {
	return EnumBytesLimits(img, exhaustiveLimit, exhaustiveLimit)
}

// EnumBytesLimits: truncation at every offset for images up to truncLimit bytes,
// structural-character substitution at every structural byte up to setLimit.
func EnumBytesLimits(img []byte, truncLimit, exhaustiveLimit int) []Fault {
	var out []Fault
	n := len(img)
	if n <= truncLimit {
		for k := 0; k < n; k++ {
			out = append(out, Fault{Layer: "bytes", Kind: "truncate", A: int64(k)})
		}
	} else {
		prevWS := true
		for k := 0; k < n; k++ {
			ws := img[k] == ' ' || img[k] == '\n' || img[k] == '\r' || img[k] == '\t'
			if (prevWS && !ws) || k%Sector == 0 {
				out = append(out, Fault{Layer: "bytes", Kind: "truncate", A: int64(k)})
			}
			prevWS = ws
		}
	}
	sectors := (n + Sector - 1) / Sector
	for s := 0; s < sectors; s++ {
		out = append(out, Fault{Layer: "bytes", Kind: "zero-sector", A: int64(s)},
			Fault{Layer: "bytes", Kind: "drop-sector", A: int64(s)}, Fault{Layer: "bytes", Kind: "dup-sector", A: int64(s)})
		if s+1 < sectors {
			out = append(out, Fault{Layer: "bytes", Kind: "swap-sectors", A: int64(s), B: int64(s + 1)})
		}
	}
	if sectors > 2 {
		out = append(out, Fault{Layer: "bytes", Kind: "swap-sectors", A: 0, B: int64(sectors - 2)})
	}
	isStructural := func(b byte) bool {
		return bytes.IndexByte([]byte("<>[]()/%"), b) >= 0 || (b >= '0' && b <= '9') || b == 'R' || b == '-' || b == '.'
	}
	if n <= exhaustiveLimit {
		for k := 0; k < n; k++ {
			if !isStructural(img[k]) {
				continue
			}
			for _, c := range structural {
				if c != img[k] {
					out = append(out, Fault{Layer: "bytes", Kind: "byteset", A: int64(k), B: int64(c)})
				}
			}
		}
	}
	return out
}

var badNumbers = []string{"0", "-1", "2147483648", "9223372036854775807", "1" + strings.Repeat("0", 400), "4294967295", "65536", "-2147483649", "1e9", "0.0000001"}

// EnumPDFTokens lists token-level faults of a PDF image: every numeric token
// replaced by each bad value, every delimiter deleted / doubled / swapped for its
// partner, every keyword mangled. Stream bodies are skipped (they are binary).
func EnumPDFTokens(img []byte) []Fault {
	var out []Fault
	n := len(img)
	inStream := false
	for i := 0; i < n; {
		if !inStream && bytes.HasPrefix(img[i:], []byte("stream")) && (i == 0 || !isAlpha(img[i-1])) {
			out = append(out, Fault{Layer: "token", Kind: "replace", A: int64(i), B: 6, S: "strean"})
			inStream = true
			i += 6
			continue
		}
		if inStream {
			if bytes.HasPrefix(img[i:], []byte("endstream")) {
				out = append(out, Fault{Layer: "token", Kind: "replace", A: int64(i), B: 9, S: "endstrea"})
				out = append(out, Fault{Layer: "token", Kind: "replace", A: int64(i), B: 9, S: ""})
				inStream = false
				i += 9
				continue
			}
			i++
			continue
		}
		c := img[i]
		switch {
		case c >= '0' && c <= '9' || ((c == '-' || c == '+') && i+1 < n && img[i+1] >= '0' && img[i+1] <= '9'):
			j := i + 1
			for j < n && (img[j] >= '0' && img[j] <= '9' || img[j] == '.') {
				j++
			}
			for _, bn := range badNumbers {
				if bn != string(img[i:j]) {
					out = append(out, Fault{Layer: "token", Kind: "replace", A: int64(i), B: int64(j - i), S: bn})
				}
			}
			// two neighbouring numbers are usually (first, count), (offset, generation) or a
			// range: both extreme at once
			if j < n && img[j] == ' ' && j+1 < n && img[j+1] >= '0' && img[j+1] <= '9' {
				e := j + 1
				for e < n && img[e] >= '0' && img[e] <= '9' {
					e++
				}
				for _, pv := range []string{"2147483647 2147483647", "0 4294967295", "4294967295 1", "-1 -1"} {
					out = append(out, Fault{Layer: "token", Kind: "replace", A: int64(i), B: int64(e - i), S: pv})
				}
			}
			i = j
		case c == '<' && i+1 < n && img[i+1] == '<':
			out = append(out, Fault{Layer: "token", Kind: "replace", A: int64(i), B: 2, S: "<"}, Fault{Layer: "token", Kind: "replace", A: int64(i), B: 2, S: ""},
				Fault{Layer: "token", Kind: "replace", A: int64(i), B: 2, S: ">>"}, Fault{Layer: "token", Kind: "replace", A: int64(i), B: 2, S: "<<<<"})
			i += 2
		case c == '>' && i+1 < n && img[i+1] == '>':
			out = append(out, Fault{Layer: "token", Kind: "replace", A: int64(i), B: 2, S: ">"}, Fault{Layer: "token", Kind: "replace", A: int64(i), B: 2, S: ""},
				Fault{Layer: "token", Kind: "replace", A: int64(i), B: 2, S: "<<"}, Fault{Layer: "token", Kind: "replace", A: int64(i), B: 2, S: ">>>>"})
			i += 2
		case c == '<' && i+1 < n && isHex(img[i+1]):
			// hex string: extreme values besides the delimiter damage below
			j := i + 1
			for j < n && (isHex(img[j]) || img[j] == ' ') {
				j++
			}
			if j < n && img[j] == '>' {
				for _, hv := range []string{"<FFFFFFFF>", "<>", "<FFFFFFFFFFFFFFFF>", "<0>", "<FFFF>", "<00000000>"} {
					out = append(out, Fault{Layer: "token", Kind: "replace", A: int64(i), B: int64(j + 1 - i), S: hv})
				}
				// two neighbouring hex strings are usually the ends of a range: both extreme
				k := j + 1
				for k < n && (img[k] == ' ' || img[k] == '\n' || img[k] == '\r') {
					k++
				}
				if k < n && img[k] == '<' && k+1 < n && isHex(img[k+1]) {
					e := k + 1
					for e < n && (isHex(img[e]) || img[e] == ' ') {
						e++
					}
					if e < n && img[e] == '>' {
						for _, pv := range []string{"<FFFFFFFF> <FFFFFFFF>", "<FFFFFF00> <FFFFFFFF>", "<00> <FFFFFFFF>", "<FFFF> <0000>"} {
							out = append(out, Fault{Layer: "token", Kind: "replace", A: int64(i), B: int64(e + 1 - i), S: pv})
						}
					}
				}
				out = append(out, Fault{Layer: "token", Kind: "replace", A: int64(i), B: 1, S: ""})
				i = j + 1
			} else {
				i++
			}
		case c == '[' && bytes.IndexByte(img[i:sim.MinInt(n, i+300)], ']') > 0:
			// an array with its brackets the wrong way round
			e := i + bytes.IndexByte(img[i:sim.MinInt(n, i+300)], ']')
			out = append(out, Fault{Layer: "token", Kind: "replace", A: int64(i), B: int64(e + 1 - i), S: "]" + string(img[i+1:e]) + "["})
			out = append(out, Fault{Layer: "token", Kind: "replace", A: int64(i), B: 1, S: ""}, Fault{Layer: "token", Kind: "replace", A: int64(i), B: 1, S: "]"},
				Fault{Layer: "token", Kind: "replace", A: int64(i), B: 1, S: "[["})
			i++
		case c == '[' || c == ']' || c == '(' || c == ')' || c == '<' || c == '>':
			partner := map[byte]string{'[': "]", ']': "[", '(': ")", ')': "(", '<': ">", '>': "<"}[c]
			out = append(out, Fault{Layer: "token", Kind: "replace", A: int64(i), B: 1, S: ""}, Fault{Layer: "token", Kind: "replace", A: int64(i), B: 1, S: partner},
				Fault{Layer: "token", Kind: "replace", A: int64(i), B: 1, S: string([]byte{c, c})})
			i++
		case c == '/':
			j := i + 1
			for j < n && !isDelimWS(img[j]) {
				j++
			}
			out = append(out, Fault{Layer: "token", Kind: "replace", A: int64(i), B: int64(j - i), S: "/X"}, Fault{Layer: "token", Kind: "replace", A: int64(i), B: int64(j - i), S: "/"},
				Fault{Layer: "token", Kind: "replace", A: int64(i), B: int64(j - i), S: string(img[i:j]) + "#"})
			i = j
		case isAlpha(c):
			j := i
			for j < n && isAlpha(img[j]) {
				j++
			}
			w := string(img[i:j])
			switch w {
			case "obj", "endobj", "xref", "trailer", "startxref", "R", "n", "f", "true", "false", "null":
				out = append(out, Fault{Layer: "token", Kind: "replace", A: int64(i), B: int64(j - i), S: ""}, Fault{Layer: "token", Kind: "replace", A: int64(i), B: int64(j - i), S: w + "x"})
			}
			i = j
		default:
			i++
		}
	}
	return out
}

func isHex(c byte) bool {
	return c >= '0' && c <= '9' || c >= 'a' && c <= 'f' || c >= 'A' && c <= 'F'
}

func isAlpha(c byte) bool { return c >= 'a' && c <= 'z' || c >= 'A' && c <= 'Z' }
func isDelimWS(c byte) bool {
	return c == ' ' || c == '\n' || c == '\r' || c == '\t' || c == 0 || c == '\f' || bytes.IndexByte([]byte("()<>[]{}/%"), c) >= 0
}

// EnumMarkup lists token-level faults of XML / HTML text: truncation at every
// element boundary, every numeric attribute value and element text replaced by
// each bad value, every cell-reference-looking attribute replaced by extreme
// references, closing tags deleted, opening tags duplicated.
func EnumMarkup(text []byte, member string) []Fault {
	var out []Fault
	layer := "xml"
	n := len(text)
	mk := func(a, b int, s string, kind string) Fault {
		return Fault{Layer: layer, Kind: kind, A: int64(a), B: int64(b), S: s, M: member}
	}
	for i := 0; i < n; i++ {
		switch text[i] {
		case '<':
			out = append(out, mk(i, n-i, "", "truncate-at-tag"))
			if i+1 < n && text[i+1] == '/' {
				j := bytes.IndexByte(text[i:], '>')
				if j > 0 {
					out = append(out, mk(i, j+1, "", "drop-closing-tag"))
				}
			} else if i+1 < n && isAlpha(text[i+1]) {
				j := bytes.IndexByte(text[i:], '>')
				if j > 0 && j < 400 && text[i+j-1] != '/' {
					out = append(out, mk(i, 0, string(text[i:i+j+1]), "dup-opening-tag"))
				}
			}
		case '>':
			if i+1 < n {
				out = append(out, mk(i+1, n-i-1, "", "truncate-after-tag"))
			}
		case '"':
			j := bytes.IndexByte(text[i+1:], '"')
			if j < 0 {
				continue
			}
			val := string(text[i+1 : i+1+j])
			if isNumber(val) {
				for _, bn := range badNumbers {
					if bn != val {
						out = append(out, mk(i+1, j, bn, "numeric-attr"))
					}
				}
			} else if isCellRef(val) {
				for _, cr := range []string{"A0", "XFD1048576", "ZZZZZZ99999999", "", "1A", "A1:ZZZ9999999", "A-1", "AAAAAAAAAAAAAAAAAAAA1"} {
					out = append(out, mk(i+1, j, cr, "cellref-attr"))
				}
			} else if strings.HasSuffix(val, ".xml") || strings.HasSuffix(val, ".xhtml") || strings.Contains(val, "/") {
				out = append(out, mk(i+1, j, "../../../../etc/passwd", "path-attr"), mk(i+1, j, "", "path-attr"), mk(i+1, j, val+"x", "path-attr"))
			}
			i += j + 1
		}
	}
	// identifier-like attribute values are references between elements (style ids, relationship
	// ids, list ids): retarget each one to every other identifier of the part, which also
	// produces self-references and cycles
	var ids []string
	seenID := map[string]bool{}
	type occ struct{ pos, n int }
	var occs []occ
	for i := 0; i < n; i++ {
		if text[i] != '"' {
			continue
		}
		j := bytes.IndexByte(text[i+1:], '"')
		if j < 0 {
			break
		}
		val := string(text[i+1 : i+1+j])
		if isIdent(val) && i > 0 && text[i-1] == '=' {
			occs = append(occs, occ{i + 1, j})
			if !seenID[val] && len(ids) < 12 {
				seenID[val] = true
				ids = append(ids, val)
			}
		}
		i += j + 1
	}
	// all identifiers of one family (rId1, rId2, ...: same letters, different number) in this
	// part renamed at once: the ids were regenerated here and nowhere else, every reference
	// through them now names something that does not exist
	fam := map[string]int{}
	for _, o := range occs {
		fam[strings.TrimRight(string(text[o.pos:o.pos+o.n]), "0123456789")]++
	}
	best := ""
	for _, f := range sortedKeys(fam) {
		if f != "" && fam[f] >= 2 && (best == "" || fam[f] > fam[best]) {
			best = f
		}
	}
	if best != "" {
		out = append(out, mk(0, 0, best, "idref-family-renamed"))
	}
	if len(occs) <= 400 {
		for _, o := range occs {
			cur := string(text[o.pos : o.pos+o.n])
			// a reference to something that does not exist
			out = append(out, mk(o.pos, o.n, "zz"+cur, "idref-attr"))
			k := 0
			for _, id := range ids {
				if id != cur && k < 6 {
					out = append(out, mk(o.pos, o.n, id, "idref-attr"))
					k++
				}
			}
		}
	}
	// element texts that are numbers (e.g. <v>12</v>)
	for i := 0; i < n; i++ {
		if text[i] != '>' {
			continue
		}
		j := bytes.IndexByte(text[i+1:], '<')
		if j <= 0 || j > 30 {
			continue
		}
		val := string(text[i+1 : i+1+j])
		if isNumber(val) {
			for _, bn := range badNumbers[:6] {
				if bn != val {
					out = append(out, mk(i+1, j, bn, "numeric-text"))
				}
			}
		}
	}
	return out
}

func sortedKeys(m map[string]int) []string {
	var ks []string
	for k := range m {
		ks = append(ks, k)
	}
	sort.Strings(ks)
	return ks
}

// RenameFamily rewrites every attribute value fam<digits> of an XML part to zzfam<digits>.
func RenameFamily(text []byte, fam string) []byte {
	var out []byte
	for i := 0; i < len(text); {
		if text[i] == '"' && i > 0 && text[i-1] == '=' {
			j := bytes.IndexByte(text[i+1:], '"')
			if j >= 0 {
				val := string(text[i+1 : i+1+j])
				if strings.HasPrefix(val, fam) && strings.TrimRight(val, "0123456789") == fam && len(val) > len(fam) {
					out = append(out, '"')
					out = append(out, "zz"+val...)
					out = append(out, '"')
					i += j + 2
					continue
				}
			}
		}
		out = append(out, text[i])
		i++
	}
	return out
}

func isIdent(s string) bool {
	if len(s) < 2 || len(s) > 24 {
		return false
	}
	for i, c := range s {
		letter := c >= 'a' && c <= 'z' || c >= 'A' && c <= 'Z' || c == '_'
		if !letter && !(i > 0 && c >= '0' && c <= '9') {
			return false
		}
	}
	return true
}

func isNumber(s string) bool {
	if s == "" || len(s) > 20 {
		return false
	}
	for i, c := range s {
		if !(c >= '0' && c <= '9') && !(i == 0 && c == '-') {
			return false
		}
	}
	return true
}

func isCellRef(s string) bool {
	if len(s) < 2 || len(s) > 12 {
		return false
	}
	i := 0
	for i < len(s) && s[i] >= 'A' && s[i] <= 'Z' {
		i++
	}
	if i == 0 || i == len(s) {
		return false
	}
	rest := s[i:]
	if k := strings.IndexByte(rest, ':'); k > 0 {
		return isNumber(rest[:k]) && isCellRef(rest[k+1:])
	}
	return isNumber(rest)
}

// DeepNesting returns markup with depth levels of nested elements (stack
// exhaustion probes), within the input-size bound.
func DeepNesting(open, close string, depth int) string {
	return strings.Repeat(open, depth) + "x" + strings.Repeat(close, depth)
}

// ---------------------------------------------------------------------------
// ZIP containers
// ---------------------------------------------------------------------------

// EnumZip lists container-level faults of a package.
func EnumZip(p *officew.Package) []Fault {
	var out []Fault
	for _, m := range p.Members {
		for _, k := range []string{"drop", "duplicate", "empty", "rename", "crc", "compressed", "method", "local-name", "central-name", "usize-0", "usize-max", "csize-0", "csize-max", "offset-0", "offset-max", "make-dir"} {
			out = append(out, Fault{Layer: "zip", Kind: k, M: m.Name})
		}
	}
	for _, k := range []string{"eocd-count-0", "eocd-count-max", "eocd-offset-0", "eocd-offset-max", "eocd-size-max", "reverse-order"} {
		out = append(out, Fault{Layer: "zip", Kind: k})
	}
	return out
}

// ApplyPackage applies zip- and xml-layer faults to a package and assembles it.
func ApplyPackage(p *officew.Package, fs []Fault) []byte {
	q := p.Clone()
	var zf []officew.ZipFault
	// xml-layer faults first (they edit member data)
	for _, f := range fs {
		if f.Layer != "xml" {
			continue
		}
		if i := q.Find(f.M); i >= 0 {
			if f.Kind == "idref-family-renamed" {
				q.Members[i].Data = RenameFamily(q.Members[i].Data, f.S)
				continue
			}
			q.Members[i].Data = ApplyBytes(q.Members[i].Data, Fault{Kind: "replace", A: f.A, B: f.B, S: f.S})
		}
	}
	for _, f := range fs {
		if f.Layer != "zip" {
			continue
		}
		i := q.Find(f.M)
		switch f.Kind {
		case "drop":
			if i >= 0 {
				q.Members = append(q.Members[:i], q.Members[i+1:]...)
			}
		case "duplicate":
			if i >= 0 {
				q.Members = append(q.Members, officew.Member{Name: q.Members[i].Name, Data: []byte("<duplicate/>")})
			}
		case "empty":
			if i >= 0 {
				q.Members[i].Data = nil
			}
		case "rename":
			if i >= 0 {
				q.Members[i].Name = "moved/" + q.Members[i].Name
			}
		case "make-dir":
			if i >= 0 {
				q.Members[i].Name += "/"
				q.Members[i].Data = nil
			}
		case "reverse-order":
			for a, b := 0, len(q.Members)-1; a < b; a, b = a+1, b-1 {
				q.Members[a], q.Members[b] = q.Members[b], q.Members[a]
			}
		}
	}
	for _, f := range fs {
		if f.Layer != "zip" {
			continue
		}
		i := q.Find(f.M)
		add := func(kind string, v int64) { zf = append(zf, officew.ZipFault{Member: i, Kind: kind, Value: v}) }
		switch f.Kind {
		case "crc":
			add("crc", 0x1234)
		case "compressed":
			add("compressed", 7+f.A)
		case "method":
			add("method", 99)
		case "local-name", "central-name":
			add(f.Kind, 0)
		case "usize-0":
			add("usize", 0)
		case "usize-max":
			add("usize", 0xFFFFFFFF)
		case "csize-0":
			add("csize", 0)
		case "csize-max":
			add("csize", 0xFFFFFFFF)
		case "offset-0":
			add("offset", 0)
		case "offset-max":
			add("offset", 0xFFFFFFF0)
		case "eocd-count-0":
			zf = append(zf, officew.ZipFault{Member: -1, Kind: "eocd-count", Value: 0})
		case "eocd-count-max":
			zf = append(zf, officew.ZipFault{Member: -1, Kind: "eocd-count", Value: 0xFFFF})
		case "eocd-offset-0":
			zf = append(zf, officew.ZipFault{Member: -1, Kind: "eocd-offset", Value: 0})
		case "eocd-offset-max":
			zf = append(zf, officew.ZipFault{Member: -1, Kind: "eocd-offset", Value: 0xFFFFFFF0})
		case "eocd-size-max":
			zf = append(zf, officew.ZipFault{Member: -1, Kind: "eocd-size", Value: 0xFFFFFFF0})
		}
	}
	return q.Bytes(zf...)
}

// ---------------------------------------------------------------------------
// in-flight faults on the public reader seams
// ---------------------------------------------------------------------------

// SimReader delivers data in seeded chunk sizes, with (n>0, EOF) and (0, nil)
// deliveries, and optionally fails at byte FailAt.
type SimReader struct {
	Data   []byte
	pos    int
	r      *sim.Rand
	FailAt int // -1: never
	Fired  bool
	Err    error
	Reads  int
}

func NewSimReader(data []byte, seed uint64, failAt int) *SimReader {
	return &SimReader{Data: data, r: sim.NewRand(seed), FailAt: failAt, Err: fmt.Errorf("simulated stream: injected read error")}
}

func (s *SimReader) Read(p []byte) (int, error) {
	s.Reads++
	if len(p) == 0 {
		return 0, nil
	}
	if s.FailAt >= 0 && s.pos >= s.FailAt {
		s.Fired = true
		return 0, s.Err
	}
	if s.pos >= len(s.Data) {
		return 0, errEOF
	}
	if s.r.Pct(5) {
		return 0, nil // legal: no progress, no error
	}
	n := 1 + s.r.Intn(sim.MinInt(len(p), 1+s.r.Intn(64)))
	if s.r.Pct(20) {
		n = len(p)
	}
	if n > len(s.Data)-s.pos {
		n = len(s.Data) - s.pos
	}
	if s.FailAt >= 0 && s.pos+n > s.FailAt {
		n = s.FailAt - s.pos
	}
	copy(p, s.Data[s.pos:s.pos+n])
	s.pos += n
	if s.pos >= len(s.Data) && s.r.Bool() {
		return n, errEOF // data together with EOF
	}
	if n == 0 {
		s.Fired = true
		return 0, s.Err
	}
	return n, nil
}

// SimReaderAt fails the k-th ReadAt call (1-based; 0 = never).
type SimReaderAt struct {
	Data   []byte
	FailOn int
	Calls  int
	Fired  bool
}

func (s *SimReaderAt) ReadAt(p []byte, off int64) (int, error) {
	s.Calls++
	if s.FailOn > 0 && s.Calls == s.FailOn {
		s.Fired = true
		return 0, fmt.Errorf("simulated storage: injected ReadAt error")
	}
	if off < 0 || off >= int64(len(s.Data)) {
		return 0, errEOF
	}
	n := copy(p, s.Data[off:])
	if n < len(p) {
		return n, errEOF
	}
	return n, nil
}
