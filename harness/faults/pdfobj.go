package faults

import (
	"sort"
	"bytes"
	"fmt"
	"strconv"
	"strings"

	"github.com/tsawler/tabula/zzharness/pdfw"
)

// Object-level ("format-aware") PDF faults: the document is regenerated through
// the independent writer with one field of one object changed, so that the
// cross-reference data stay valid and the damaged field is really reached.

var badInts = []pdfw.Obj{0, -1, 2147483648, 9223372036854775807, pdfw.Raw("1" + strings.Repeat("0", 400)), 1000000, -2147483649}

// sameAsReal: variant index (after the bad integers and "drop") that spells an integer
// field as a real number of the same value ("12.0").
const sameAsReal = 8

var repeatTokens = []string{"q ", "[ ", "<< ", "( ", "BT ", "q 1 0 0 1 0 0 cm ", "/Span << /MCID 0 >> BDC "}

var addKeys = []string{"Extends", "Parent", "Prev", "Next", "First", "Kids", "ToUnicode", "Resources", "Length", "XRefStm"}

const numEntryVariants = 10

// entryVariant damages one field of a cross-reference entry (typ 0 free, 1 plain, 2 in
// an object stream).
func entryVariant(v, num, typ, a, b int) (int, int, int) {
	switch v {
	case 0:
		return 0, a, b
	case 1:
		return 1, 0, b
	case 2:
		return 2, num, 0 // stored in an object stream that is the object itself
	case 3:
		return 3, a, b // a type the format does not define
	case 4:
		return typ, a + 1, b
	case 5:
		return typ, 1 << 31, b
	case 6:
		return typ, a, b + 1
	case 7:
		return typ, a, 65535
	case 8:
		return typ, num, b
	}
	return typ, 0, 0
}

var words16 = []uint16{0xFFFF, 0x0000, 0x8000, 0x7FFF}

const numWords32 = 6

func word32(v int, n int) uint32 {
	switch v {
	case 0:
		return 0xFFFFFFFF
	case 1:
		return 0x80000000
	case 2:
		return 0x7FFFFFFF
	case 3:
		return uint32(n)
	case 4:
		return uint32(n - 1)
	}
	return 0xFFFFFFF0
}

type recorded struct {
	num  int
	kind string
	obj  pdfw.Obj
}

// EnumPDFFields lists every field-level fault of the document described by spec.
func EnumPDFFields(spec pdfw.DocSpec) []Fault {
	var recs []recorded
	hook := func(kind string, num int, o pdfw.Obj) pdfw.Obj {
		recs = append(recs, recorded{num, kind, o})
		return o
	}
	type xent struct{ rev, num, typ, a, b int }
	var ents []xent
	g := pdfw.GenerateHooks(spec, pdfw.Hooks{Obj: hook, Entry: func(rev, num, typ, a, b int) (int, int, int) {
		ents = append(ents, xent{rev, num, typ, a, b})
		return typ, a, b
	}})
	root := g.Built.Root.Num
	members := map[int][]int{}
	for _, model := range g.Built.Model {
		for _, num := range pdfw.SortedNums(model) {
			if c := model[num].InStm; c != 0 {
				dup := false
				for _, m := range members[c] {
					dup = dup || m == num
				}
				if !dup && len(members[c]) < 3 {
					members[c] = append(members[c], num)
				}
			}
		}
	}
	var out []Fault
	for _, rc := range recs {
		switch rc.kind {
		case "plain":
			// token-level damage inside text-like stream data (content programs, CMaps),
			// applied before encoding so that it survives any filter chain
			data := rc.obj.(pdfw.Str).B
			if !looksLikeText(data) {
				// binary payload (an embedded font program): every 16-bit and 32-bit big-endian
				// word replaced by the values at which offset / length arithmetic goes wrong
				if len(data) > 0 && len(data) <= 1024 {
					for off := 0; off+2 <= len(data); off += 2 {
						for v := 0; v < len(words16); v++ {
							out = append(out, Fault{Layer: "pdfobj", Kind: "stream-word16", A: int64(rc.num), B: int64(off)<<8 | int64(v)})
						}
						if off%4 == 0 && off+4 <= len(data) {
							for v := 0; v < numWords32; v++ {
								out = append(out, Fault{Layer: "pdfobj", Kind: "stream-word32", A: int64(rc.num), B: int64(off)<<8 | int64(v)})
							}
						}
					}
				}
				break
			}
			for _, tf := range EnumPDFTokens(data) {
				out = append(out, Fault{Layer: "pdfobj", Kind: "stream-text", A: int64(rc.num), B: tf.A<<20 | tf.B, S: tf.S})
			}
			// one token repeated tens of thousands of times in front of the program: unmatched
			// saves, nesting, marked content - whatever is kept per occurrence is kept 20 000 times
			if !bytes.Contains(data, []byte("begincmap")) {
				for _, tok := range repeatTokens {
					out = append(out, Fault{Layer: "pdfobj", Kind: "stream-repeat", A: int64(rc.num), B: 40000, S: tok})
				}
			}
			// the data cut off at every token boundary (a torn stream whose /Length still matches)
			prevWS := true
			for k := 0; k < len(data); k++ {
				ws := data[k] == ' ' || data[k] == '\n' || data[k] == '\r' || data[k] == '\t'
				if (prevWS && !ws && k > 0) || (!prevWS && ws) {
					out = append(out, Fault{Layer: "pdfobj", Kind: "stream-text", A: int64(rc.num), B: int64(k)<<20 | int64(len(data)-k), S: ""})
				}
				prevWS = ws
			}
		case "raw":
			for v := 0; v < 5; v++ {
				out = append(out, Fault{Layer: "pdfobj", Kind: "stream-body", A: int64(rc.num), B: int64(v)})
			}
		case "obj", "trailer":
			k := "field"
			if rc.kind == "trailer" {
				k = "trailer-field"
			}
			if d, isDict := rc.obj.(pdfw.Dict); isDict && rc.kind == "obj" {
				// a reference the format allows but the object did not have, pointing at the object
				// itself: whatever follows such keys (/Extends of object streams, /Parent, /Prev,
				// /Next, /First, ...) must not follow them for ever
				for _, key := range addKeys {
					if d.Get(key) == nil {
						out = append(out, Fault{Layer: "pdfobj", Kind: "field-add", A: int64(rc.num), B: int64(rc.num), S: key})
					}
				}
			}
			walk(rc.obj, "", func(path string, v pdfw.Obj) {
				for i := 0; i < variants(v, root); i++ {
					out = append(out, Fault{Layer: "pdfobj", Kind: k, A: int64(rc.num), B: int64(i), S: path})
				}
				if _, isInt := v.(int); isInt && rc.kind == "obj" {
					// a number replaced by a reference: to the object itself, and to the objects
					// stored inside it when it is an object stream (loading those needs the stream)
					out = append(out, Fault{Layer: "pdfobj", Kind: "field-ref", A: int64(rc.num), B: int64(rc.num), S: path})
					for _, m := range members[rc.num] {
						out = append(out, Fault{Layer: "pdfobj", Kind: "field-ref", A: int64(rc.num), B: int64(m), S: path})
					}
				}
			})
		}
	}
	// every field of every cross-reference entry, whichever kind of section carries it
	sort.Slice(ents, func(i, j int) bool {
		if ents[i].rev != ents[j].rev {
			return ents[i].rev < ents[j].rev
		}
		return ents[i].num < ents[j].num
	})
	for _, e := range ents {
		for v := 0; v < numEntryVariants; v++ {
			out = append(out, Fault{Layer: "pdfobj", Kind: "xref-entry", A: int64(e.num), B: int64(e.rev)<<8 | int64(v)})
		}
	}
	for rev := 0; rev <= spec.Revisions; rev++ {
		for _, k := range []string{"prev-self", "prev-zero", "prev-huge", "prev-negative", "prev-header", "prev-self-real", "prev-real"} {
			out = append(out, Fault{Layer: "pdfobj", Kind: k, A: int64(rev)})
		}
	}
	return out
}

// EnumPDFPairs lists two-fault combinations that single faults and random pairs
// do not reach: one fault turns a structure into a cycle (a reference in a
// collection is pointed at its container or at what a sibling entry names), the
// other makes a sibling entry's object fail to load or parse. The error path of a
// recursive walk then runs inside the recursion that a depth or visited guard has
// to stop, which is where a guard's bookkeeping is easiest to get wrong.
func EnumPDFPairs(spec pdfw.DocSpec) [][]Fault {
	var recs []recorded
	hook := func(kind string, num int, o pdfw.Obj) pdfw.Obj {
		recs = append(recs, recorded{num, kind, o})
		return o
	}
	type xent struct{ rev, num, typ, a, b int }
	var ents []xent
	pdfw.GenerateHooks(spec, pdfw.Hooks{Obj: hook, Entry: func(rev, num, typ, a, b int) (int, int, int) {
		ents = append(ents, xent{rev, num, typ, a, b})
		return typ, a, b
	}})
	sort.Slice(ents, func(i, j int) bool {
		if ents[i].rev != ents[j].rev {
			return ents[i].rev < ents[j].rev
		}
		return ents[i].num < ents[j].num
	})
	plain := map[int][]byte{}
	hasRaw := map[int]bool{}
	dicts := map[int]pdfw.Obj{}
	for _, rc := range recs {
		switch rc.kind {
		case "plain":
			plain[rc.num] = rc.obj.(pdfw.Str).B
		case "raw":
			hasRaw[rc.num] = true
		case "obj":
			dicts[rc.num] = rc.obj
		}
	}
	breakers := func(num int) []Fault {
		var out []Fault
		if data, ok := plain[num]; ok && looksLikeText(data) {
			for _, repl := range []string{"(never closed", ") Tj", "<< /A", "[ 1 2", "1 0 0 1 0 0 cm >"} {
				out = append(out, Fault{Layer: "pdfobj", Kind: "stream-text", A: int64(num), B: int64(0)<<20 | int64(len(data)), S: repl})
			}
			out = append(out, Fault{Layer: "pdfobj", Kind: "stream-text", A: int64(num), B: int64(len(data)/2)<<20 | int64(len(data)-len(data)/2), S: "("})
		}
		if hasRaw[num] {
			out = append(out, Fault{Layer: "pdfobj", Kind: "stream-body", A: int64(num), B: 0}, Fault{Layer: "pdfobj", Kind: "stream-body", A: int64(num), B: 3})
		}
		if d, ok := dicts[num].(pdfw.Dict); ok {
			for i, kv := range d {
				if i >= 6 {
					break
				}
				if n := variants(kv.V, 0); n > 0 {
					out = append(out, Fault{Layer: "pdfobj", Kind: "field", A: int64(num), B: 0, S: "/K:" + kv.K})
					out = append(out, Fault{Layer: "pdfobj", Kind: "field", A: int64(num), B: int64(n - 1), S: "/K:" + kv.K})
				}
			}
		}
		return out
	}
	type refField struct {
		path   string
		target int
	}
	var out [][]Fault
	// object streams chained by /Extends (to themselves, to each other) x a member whose
	// cross-reference entry names the wrong position in its stream: the lookup that has to
	// search then searches along the chain
	var containers []int
	for _, e := range ents {
		if e.typ == 2 {
			known := false
			for _, c := range containers {
				known = known || c == e.a
			}
			if !known {
				containers = append(containers, e.a)
			}
		}
	}
	for _, c := range containers {
		// ... and an object that is not in the stream at all, said to be in it
		self := Fault{Layer: "pdfobj", Kind: "field-add", A: int64(c), B: int64(c), S: "Extends"}
		n := 0
		for _, e := range ents {
			if !(e.typ == 2 && e.a == c) && e.typ != 0 && e.num != c && n < 8 {
				n++
				out = append(out, []Fault{self, {Layer: "pdfobj", Kind: "xref-entry", A: int64(e.num), B: int64(e.rev)<<8 | 10, S: strconv.Itoa(c)}})
			}
		}
		for _, tg := range containers {
			mk := Fault{Layer: "pdfobj", Kind: "field-add", A: int64(c), B: int64(tg), S: "Extends"}
			n := 0
			for _, e := range ents {
				if e.typ == 2 && e.a == c && n < 4 {
					n++
					for _, v := range []int{6, 7} {
						out = append(out, []Fault{mk, {Layer: "pdfobj", Kind: "xref-entry", A: int64(e.num), B: int64(e.rev)<<8 | int64(v)}})
					}
				}
			}
		}
	}
	seen := map[int]bool{}
	for _, rc := range recs {
		if rc.kind != "obj" || seen[rc.num] {
			continue
		}
		seen[rc.num] = true
		groups := map[string][]refField{}
		var order []string
		walk(rc.obj, "", func(path string, v pdfw.Obj) {
			if r, ok := v.(pdfw.Ref); ok {
				parent := path[:strings.LastIndex(path, "/")]
				if _, ok := groups[parent]; !ok {
					order = append(order, parent)
				}
				groups[parent] = append(groups[parent], refField{path, r.Num})
			}
		})
		for _, parent := range order {
			g := groups[parent]
			if len(g) < 2 || len(g) > 4 {
				continue
			}
			for j, maker := range g {
				// where the reference is pointed: at its container, and at what each sibling names
				targets := []int{rc.num}
				for i, sib := range g {
					if i != j && sib.target != maker.target {
						targets = append(targets, sib.target)
					}
				}
				for _, tg := range targets {
					mf := Fault{Layer: "pdfobj", Kind: "field-ref", A: int64(rc.num), B: int64(tg), S: maker.path}
					for i, sib := range g {
						if i == j || sib.target == tg {
							continue
						}
						for _, bf := range breakers(sib.target) {
							out = append(out, []Fault{mf, bf})
						}
					}
				}
			}
		}
	}
	return out
}

func variants(v pdfw.Obj, root int) int {
	switch v.(type) {
	case int:
		return len(badInts) + 2 // + drop + the same value as a real
	case pdfw.Real:
		return 4
	case pdfw.Ref:
		return 6
	case pdfw.Name:
		return 2
	case pdfw.Arr:
		return 4
	case pdfw.Dict:
		return 2
	case pdfw.Str:
		return 2
	case bool, nil:
		return 1
	}
	return 0
}

func walk(o pdfw.Obj, path string, f func(path string, v pdfw.Obj)) {
	if path != "" {
		f(path, o)
	}
	switch v := o.(type) {
	case pdfw.Dict:
		for _, kv := range v {
			walk(kv.V, path+"/K:"+kv.K, f)
		}
	case pdfw.Arr:
		for i, e := range v {
			if i >= 6 {
				break
			}
			walk(e, path+"/I:"+strconv.Itoa(i), f)
		}
	}
}

// mutate returns the replacement for v (variant i); drop asks the parent to remove the entry.
func mutate(v pdfw.Obj, i int, self, root int) (nv pdfw.Obj, drop bool) {
	switch x := v.(type) {
	case int:
		if i < len(badInts) {
			return badInts[i], false
		}
		if i == sameAsReal {
			return pdfw.Real(float64(x)), false
		}
		return nil, true
	case pdfw.Real:
		return []pdfw.Obj{pdfw.Real(0), pdfw.Real(-1), pdfw.Raw("1" + strings.Repeat("0", 40) + ".0"), pdfw.Name("NotANumber")}[i%4], false
	case pdfw.Ref:
		switch i {
		case 0:
			return pdfw.Ref{Num: self}, false
		case 1:
			return pdfw.Ref{Num: root}, false
		case 2:
			return pdfw.Ref{Num: 0, Gen: 65535}, false
		case 3:
			return pdfw.Ref{Num: 999999}, false
		case 4:
			return 7, false // a direct integer where a reference was
		default:
			return nil, true
		}
	case pdfw.Name:
		if i == 0 {
			return pdfw.Name("X" + string(x)), false
		}
		return 12, false
	case pdfw.Arr:
		switch i {
		case 0:
			return pdfw.Arr{}, false
		case 1:
			if len(x) > 0 {
				return x[:len(x)-1], false
			}
			return pdfw.Arr{nil}, false
		case 2:
			return append(append(pdfw.Arr{}, x...), x...), false
		default:
			return pdfw.Ref{Num: self}, false
		}
	case pdfw.Dict:
		if i == 0 {
			return pdfw.Dict{}, false
		}
		return pdfw.Arr{x}, false
	case pdfw.Str:
		if i == 0 {
			return pdfw.Str{}, false
		}
		return pdfw.Str{B: []byte(strings.Repeat("A", 5000))}, false
	default:
		return pdfw.Name("Weird"), false
	}
}

func mutateAt(o pdfw.Obj, steps []string, variant, self, root int) (pdfw.Obj, bool) {
	if len(steps) == 0 {
		return mutate(o, variant, self, root)
	}
	st := steps[0]
	switch v := o.(type) {
	case pdfw.Dict:
		if !strings.HasPrefix(st, "K:") {
			return o, false
		}
		key := st[2:]
		var out pdfw.Dict
		for _, kv := range v {
			if kv.K == key {
				nv, drop := mutateAt(kv.V, steps[1:], variant, self, root)
				if drop {
					continue
				}
				out = append(out, pdfw.KV{K: kv.K, V: nv})
			} else {
				out = append(out, kv)
			}
		}
		return out, false
	case pdfw.Arr:
		if !strings.HasPrefix(st, "I:") {
			return o, false
		}
		idx, _ := strconv.Atoi(st[2:])
		out := append(pdfw.Arr{}, v...)
		if idx < len(out) {
			nv, drop := mutateAt(out[idx], steps[1:], variant, self, root)
			if drop {
				out = append(out[:idx], out[idx+1:]...)
			} else {
				out[idx] = nv
			}
		}
		return out, false
	}
	return o, false
}

// replaceAt puts nv at the given path.
func replaceAt(o pdfw.Obj, steps []string, nv pdfw.Obj) (pdfw.Obj, bool) {
	if len(steps) == 0 {
		return nv, true
	}
	switch v := o.(type) {
	case pdfw.Dict:
		if !strings.HasPrefix(steps[0], "K:") {
			return o, false
		}
		out := append(pdfw.Dict{}, v...)
		for i, kv := range out {
			if kv.K == steps[0][2:] {
				r, _ := replaceAt(kv.V, steps[1:], nv)
				out[i] = pdfw.KV{K: kv.K, V: r}
			}
		}
		return out, true
	case pdfw.Arr:
		if !strings.HasPrefix(steps[0], "I:") {
			return o, false
		}
		idx, _ := strconv.Atoi(steps[0][2:])
		out := append(pdfw.Arr{}, v...)
		if idx < len(out) {
			r, _ := replaceAt(out[idx], steps[1:], nv)
			out[idx] = r
		}
		return out, true
	}
	return o, false
}

func looksLikeText(b []byte) bool {
	if len(b) == 0 || len(b) > 6000 {
		return false
	}
	bad := 0
	for _, c := range b {
		if c < 9 || (c > 13 && c < 32) || c > 126 {
			bad++
		}
	}
	return bad*20 < len(b)
}

// ApplyPDFFields regenerates the document with the given object-level faults.
func ApplyPDFFields(spec pdfw.DocSpec, fs []Fault) []byte {
	root := 0
	hook := func(kind string, num int, o pdfw.Obj) pdfw.Obj {
		for _, f := range fs {
			if f.Layer != "pdfobj" || int(f.A) != num {
				continue
			}
			switch {
			case f.Kind == "stream-text" && kind == "plain":
				s := o.(pdfw.Str)
				o = pdfw.Str{B: ApplyBytes(s.B, Fault{Kind: "replace", A: f.B >> 20, B: f.B & 0xFFFFF, S: f.S})}
			case f.Kind == "stream-repeat" && kind == "plain":
				o = pdfw.Str{B: append([]byte(strings.Repeat(f.S, int(f.B))), o.(pdfw.Str).B...)}
			case f.Kind == "stream-word16" && kind == "plain":
				b := append([]byte{}, o.(pdfw.Str).B...)
				if off := int(f.B >> 8); off+2 <= len(b) {
					w := words16[int(f.B&0xff)%len(words16)]
					b[off], b[off+1] = byte(w>>8), byte(w)
				}
				o = pdfw.Str{B: b}
			case f.Kind == "stream-word32" && kind == "plain":
				b := append([]byte{}, o.(pdfw.Str).B...)
				if off := int(f.B >> 8); off+4 <= len(b) {
					w := word32(int(f.B&0xff), len(b))
					b[off], b[off+1], b[off+2], b[off+3] = byte(w>>24), byte(w>>16), byte(w>>8), byte(w)
				}
				o = pdfw.Str{B: b}
			case f.Kind == "field-add" && kind == "obj":
				if d, ok := o.(pdfw.Dict); ok {
					var v pdfw.Obj = pdfw.Ref{Num: int(f.B)}
					if f.S == "Kids" {
						v = pdfw.Arr{v}
					}
					o = append(append(pdfw.Dict{}, d...), pdfw.KV{K: f.S, V: v})
				}
			case f.Kind == "field-ref" && kind == "obj":
				steps := strings.Split(strings.TrimPrefix(f.S, "/"), "/")
				no, _ := replaceAt(o, steps, pdfw.Ref{Num: int(f.B)})
				o = no
			case f.Kind == "stream-body" && kind == "raw":
				s := o.(pdfw.Str)
				b := append([]byte{}, s.B...)
				switch f.B {
				case 0:
					if len(b) > 0 {
						b[0] ^= 0xFF
					}
				case 1:
					if len(b) > 0 {
						b[len(b)/2] ^= 0x55
					}
				case 2:
					if len(b) > 0 {
						b[len(b)-1] ^= 0xFF
					}
				case 3:
					b = b[:len(b)/2]
				default:
					b = nil
				}
				o = pdfw.Str{B: b}
			case f.Kind == "field" && kind == "obj", f.Kind == "trailer-field" && kind == "trailer":
				steps := strings.Split(strings.TrimPrefix(f.S, "/"), "/")
				no, _ := mutateAt(o, steps, int(f.B), num, root)
				o = no
			}
		}
		return o
	}
	prev := func(rev, xrefOff, p int) int {
		for _, f := range fs {
			if f.Layer != "pdfobj" || !strings.HasPrefix(f.Kind, "prev-") || int(f.A) != rev {
				continue
			}
			switch f.Kind {
			case "prev-self", "prev-self-real":
				return xrefOff
			case "prev-zero":
				return 0
			case "prev-huge":
				return 1 << 40
			case "prev-negative":
				return -5
			case "prev-header":
				return 9
			}
		}
		return p
	}
	// the catalog number is needed for "retarget to the root"
	root = pdfw.Generate(spec).Built.Root.Num
	var entry func(rev, num, typ, a, b int) (int, int, int)
	for _, f := range fs {
		if f.Layer == "pdfobj" && f.Kind == "xref-entry" {
			entry = func(rev, num, typ, a, b int) (int, int, int) {
				for _, f := range fs {
					if f.Layer == "pdfobj" && f.Kind == "xref-entry" && int(f.A) == num && int(f.B>>8) == rev {
						if v := int(f.B & 0xff); v == 10 {
							// said to be the first member of the object stream named in S
							c, _ := strconv.Atoi(f.S)
							typ, a, b = 2, c, 0
						} else {
							typ, a, b = entryVariant(v, num, typ, a, b)
						}
					}
				}
				return typ, a, b
			}
			break
		}
	}
	prevReal := false
	for _, f := range fs {
		prevReal = prevReal || (f.Layer == "pdfobj" && (f.Kind == "prev-self-real" || f.Kind == "prev-real"))
	}
	return pdfw.GenerateHooks(spec, pdfw.Hooks{Obj: hook, Prev: prev, Entry: entry, PrevReal: prevReal}).Built.Bytes
}

var _ = fmt.Sprint
