package pdfw

import (
	"bytes"
	"fmt"
	"sort"

	"github.com/tsawler/tabula/zzharness/sim"
)

// RevSpec describes one revision (the base file or one incremental update) as
// the writer is asked to commit it.
type RevSpec struct {
	Set         map[int]Obj  `json:"-"` // objects defined or replaced
	Free        []int        // objects deleted
	XRefStream  bool         // cross-reference stream instead of table
	InObjStm    map[int]bool // objects to pack into object streams (stream revisions only)
	ObjStms     int          // how many containers to spread them over (>=1)
	ObjStmFlate bool
	// ForwardPrev (first revision, classic table): the layout of a linearized file - a
	// first cross-reference section near the start of the file covers a run of objects,
	// its /Prev points FORWARD to the main section at the end, and startxref names the
	// first section.
	ForwardPrev      bool
	TableAfterStream bool // allow a classic table in an update of a file that already has a cross-reference stream
	XRefFlate   int    // 0 none, 1 flate, 2 flate + PNG Up predictor
	WidePad     int    // extra bytes in /W fields
	Shuffle     uint64 // file order of the objects of this revision
	RepackOld   int    // >0: re-emit all live members of that (older) container and free it
	SplitXRef   bool   // table: write subsections even for consecutive numbers in two pieces
	NoHead      bool   // updates: do not rewrite the entry of object 0 when objects are freed
}

// Entry is the model's view of one object number after some revision.
type Entry struct {
	Free  bool
	Value Obj    // nil for Aux
	Aux   string // "ObjStm" / "XRef": objects the writer added itself
	AuxStream *Stream // ObjStm: the container as written (Raw = stored bytes, Plain = decoded payload)
	Rev   int    // revision that wrote the current value
	Gen   int
	InStm int // container object number, 0 if stored plainly
}

// Built is a committed file with its model.
type Built struct {
	Bytes  []byte
	RevEnd []int           // file length after each revision
	Model  []map[int]Entry // state after each revision
	Root   Ref
	Info   *Ref
	// Offsets[rev][num] is the file offset of the body of object num as written by
	// revision rev (plainly stored objects only).
	Offsets []map[int]int
}

// Writer commits revisions one after another (append-only log).
type Writer struct {
	st            Style
	r             *sim.Rand
	buf           bytes.Buffer
	gen           map[int]int
	state         map[int]Entry
	members       map[int][]int // container -> member object numbers (live ones)
	next          int           // next unused object number
	prevXRef      int
	anyStreamXRef bool
	revs          int
	out           Built
	Version       string
	// Hook, when set, sees every value just before it is written: kind is "obj"
	// (num = object number; for streams the dictionary incl. /Length, /Filter,
	// /DecodeParms), "trailer", "plain" (o = Str holding a stream's data before
	// encoding) or "raw" (o = Str holding the encoded stream bytes). It returns
	// the value to write. Fault injection only.
	Hook func(kind string, num int, o Obj) Obj
	// OffsetHook may replace the offset recorded in a cross-reference entry
	// (fault injection: misdirected entries).
	OffsetHook func(rev, num, off int) int
	// PrevReal writes /Prev as a real number with the same value ("116.0").
	PrevReal bool
	// EntryHook may replace any field of a cross-reference entry as it is written (typ 0
	// free, 1 plain, 2 in an object stream; a, b = next free, generation | offset,
	// generation | container, index). The writer's own model is not affected.
	EntryHook func(rev, num, typ, a, b int) (int, int, int)
	// PrevHook may replace the /Prev offset (fault injection: cyclic chains).
	PrevHook func(rev, xrefOff, prev int) int
}

func NewWriter(st Style, r *sim.Rand, root Ref, info *Ref, firstFreeNum int) *Writer {
	w := &Writer{st: st, r: r, gen: map[int]int{}, state: map[int]Entry{}, members: map[int][]int{}, next: firstFreeNum,
		Version: "1.7"}
	w.out.Root = root
	w.out.Info = info
	return w
}

// NextNum allocates an unused object number.
func (w *Writer) NextNum() int { n := w.next; w.next++; return n }

// Gen returns the current generation of an object number.
func (w *Writer) Gen(num int) int { return w.gen[num] }

func (w *Writer) eol() string { return w.st.EOL }

// Commit appends one revision and returns the bytes appended.
func (w *Writer) Commit(rs RevSpec) []byte {
	start := w.buf.Len()
	if w.revs == 0 {
		fmt.Fprintf(&w.buf, "%%PDF-%s%s", w.Version, w.eol())
		if w.r.Pct(70) {
			w.buf.WriteString("%\xE2\xE3\xCF\xD3" + w.eol())
		}
	} else if w.r.Pct(50) {
		w.buf.WriteString(w.eol())
	}
	if !rs.XRefStream && w.anyStreamXRef && !rs.TableAfterStream {
		// by default never a table after a stream (what every producer does); a caller
		// may ask for it: /Prev of a classic trailer names "the previous cross-reference
		// section", of whichever kind
		rs.XRefStream = true
	}
	set := map[int]Obj{}
	for k, v := range rs.Set {
		set[k] = v
	}
	// repack an older container: re-emit its live members, free the container
	if rs.RepackOld > 0 {
		if mem, ok := w.members[rs.RepackOld]; ok {
			for _, m := range mem {
				if _, replaced := set[m]; replaced {
					continue
				}
				if e := w.state[m]; !e.Free && e.InStm == rs.RepackOld {
					set[m] = e.Value
				}
			}
			rs.Free = append(rs.Free, rs.RepackOld)
		}
	}
	// generation bookkeeping for reused numbers happened at free time.
	type loc struct {
		typ  int // 0 free 1 plain 2 compressed
		a, b int // offset,gen | container,index | nextfree,gen
	}
	locs := map[int]loc{}

	// decide which objects go into containers
	var packed []int
	if rs.XRefStream {
		for _, num := range SortedNums(set) {
			if !rs.InObjStm[num] || w.gen[num] != 0 {
				continue
			}
			if _, isStream := set[num].(*Stream); isStream {
				continue
			}
			packed = append(packed, num)
		}
	}
	nCont := rs.ObjStms
	if nCont < 1 {
		nCont = 1
	}
	if nCont > len(packed) {
		nCont = len(packed)
	}
	containers := map[int]*Stream{}
	contMembers := map[int][]int{}
	if len(packed) > 0 {
		groups := make([][]int, nCont)
		for i, num := range packed {
			groups[i%nCont] = append(groups[i%nCont], num)
		}
		for gi, g := range groups {
			if rs.Shuffle != 0 {
				// members in any order inside their container (the header pairs say where each is;
				// the index in the cross-reference entry is the position in that header)
				mr := sim.NewRand(rs.Shuffle ^ uint64(gi+1)*0x9E3779B97F4A7C15)
				p := mr.Perm(len(g))
				sh := make([]int, len(g))
				for i, j := range p {
					sh[i] = g[j]
				}
				g = sh
				groups[gi] = g
			}
			cnum := w.NextNum()
			var hdr, body bytes.Buffer
			for idx, num := range g {
				fmt.Fprintf(&hdr, "%d %d ", num, body.Len())
				member := set[num]
				if w.Hook != nil {
					member = w.Hook("obj", num, member)
				}
				body.Write(Serialise(member, w.st, w.r))
				body.WriteString(sim.Pick(w.r, []string{" ", "\n", w.eol()}))
				locs[num] = loc{2, cnum, idx}
			}
			plain := append(append([]byte{}, hdr.Bytes()...), body.Bytes()...)
			st := &Stream{Dict: Dict{{"Type", Name("ObjStm")}, {"N", len(g)}, {"First", hdr.Len()}}, Plain: plain}
			if rs.ObjStmFlate {
				st.Filters = []FilterSpec{{Name: "FlateDecode", Columns: 1, Colors: 1}}
			}
			containers[cnum] = st
			contMembers[cnum] = g
		}
	}

	// file order of the plainly stored objects (incl. containers)
	var plainNums []int
	for _, num := range SortedNums(set) {
		if l, ok := locs[num]; ok && l.typ == 2 {
			continue
		}
		plainNums = append(plainNums, num)
	}
	plainNums = append(plainNums, SortedNums(containers)...)
	if rs.Shuffle != 0 {
		sr := sim.NewRand(rs.Shuffle)
		p := sr.Perm(len(plainNums))
		sh := make([]int, len(plainNums))
		for i, j := range p {
			sh[i] = plainNums[j]
		}
		plainNums = sh
	}
	// forward layout: reserve the first section now, fill it in when the offsets are known
	var fwdSet map[int]bool
	fwdOff, fwdPrevPos := -1, -1
	fwdEntryPos := map[int]int{}
	if rs.ForwardPrev && w.revs == 0 && !rs.XRefStream && len(containers) == 0 && len(plainNums) >= 4 {
		sorted := append([]int{}, plainNums...)
		sort.Ints(sorted)
		// a run of consecutive object numbers
		i := w.r.Intn(len(sorted) - 1)
		j := i
		for j+1 < len(sorted) && sorted[j+1] == sorted[j]+1 && j-i < len(sorted)/2 {
			j++
		}
		fwdSet = map[int]bool{}
		fwdOff = w.buf.Len()
		fmt.Fprintf(&w.buf, "xref%s%d %d%s", w.eol(), sorted[i], j-i+1, w.eol())
		eol2 := " \n"
		switch w.st.EOL {
		case "\r\n":
			eol2 = "\r\n"
		case "\r":
			eol2 = " \r"
		}
		for k := i; k <= j; k++ {
			fwdSet[sorted[k]] = true
			fwdEntryPos[sorted[k]] = w.buf.Len()
			fmt.Fprintf(&w.buf, "%010d %05d n%s", 0, 0, eol2)
		}
		w.buf.WriteString("trailer" + w.eol())
		tr := Dict{{"Size", w.next}, {"Root", w.out.Root}}
		if w.out.Info != nil {
			tr = append(tr, KV{"Info", *w.out.Info})
		}
		w.buf.Write(Serialise(tr, Style{EOL: w.st.EOL}, w.r))
		// the /Prev entry is written by hand at a known place: ten digits, patched below
		b := w.buf.Bytes()
		if n := len(b); n >= 2 && b[n-1] == '>' && b[n-2] == '>' {
			w.buf.Truncate(n - 2)
			w.buf.WriteString(" /Prev ")
			fwdPrevPos = w.buf.Len()
			w.buf.WriteString("0000000000 >>")
		}
		w.buf.WriteString(w.eol())
	}
	for _, num := range plainNums {
		var o Obj
		if c, ok := containers[num]; ok {
			o = c
		} else {
			o = set[num]
		}
		off := w.buf.Len()
		w.writeIndirect(num, w.gen[num], o)
		locs[num] = loc{1, off, w.gen[num]}
	}

	// frees: bump generation, chain the free list through object 0
	frees := append([]int{}, rs.Free...)
	sort.Ints(frees)
	var freeNums []int
	for _, f := range frees {
		if e, ok := w.state[f]; ok && !e.Free {
			freeNums = append(freeNums, f)
		}
	}
	if len(freeNums) > 0 || w.revs == 0 {
		// object 0 heads the list
		chain := append([]int{0}, freeNums...)
		if rs.NoHead && w.revs > 0 {
			chain = freeNums // some writers leave the head of the free list alone
		}
		for i, f := range chain {
			nextFree := 0
			if i+1 < len(chain) {
				nextFree = chain[i+1]
			}
			g := 65535
			if f != 0 {
				w.gen[f]++
				g = w.gen[f]
			}
			locs[f] = loc{0, nextFree, g}
		}
	}

	offs := map[int]int{}
	for _, num := range SortedNums(locs) {
		l := locs[num]
		if l.typ == 1 {
			offs[num] = l.a
			if w.OffsetHook != nil {
				l.a = w.OffsetHook(w.revs, num, l.a)
				locs[num] = l
			}
		}
	}
	w.out.Offsets = append(w.out.Offsets, offs)

	// what the cross-reference section says may be made to differ from where things are
	// (fault injection: any field of any entry)
	written := locs
	if w.EntryHook != nil {
		written = map[int]loc{}
		for num, l := range locs {
			t, a, b := w.EntryHook(w.revs, num, l.typ, l.a, l.b)
			written[num] = loc{t, a, b}
		}
	}

	// cross-reference section
	xrefOff := w.buf.Len()
	size := w.next
	trailer := Dict{}
	if rs.XRefStream {
		xnum := w.NextNum()
		size = w.next
		locs[xnum] = loc{1, xrefOff, 0}
		written[xnum] = loc{1, xrefOff, 0}
		nums := SortedNums(locs)
		maxA, maxB := 0, 0
		for _, n := range nums {
			l := written[n]
			if l.a > maxA {
				maxA = l.a
			}
			if l.b > maxB {
				maxB = l.b
			}
		}
		wa, wb := bytesFor(maxA)+rs.WidePad, bytesFor(maxB)+rs.WidePad%2
		var data bytes.Buffer
		var index Arr
		for i := 0; i < len(nums); {
			j := i
			for j+1 < len(nums) && nums[j+1] == nums[j]+1 {
				j++
			}
			index = append(index, nums[i], j-i+1)
			for k := i; k <= j; k++ {
				l := written[nums[k]]
				data.WriteByte(byte(l.typ))
				putBE(&data, l.a, wa)
				putBE(&data, l.b, wb)
			}
			i = j + 1
		}
		d := Dict{{"Type", Name("XRef")}, {"Size", size}, {"W", Arr{1, wa, wb}}}
		if !(len(index) == 2 && index[0] == 0 && index[1] == size && w.r.Bool()) {
			d = append(d, KV{"Index", index})
		}
		d = append(d, KV{"Root", w.out.Root})
		if w.out.Info != nil {
			d = append(d, KV{"Info", *w.out.Info})
		}
		if w.revs > 0 {
			pv := w.prevXRef
			if w.PrevHook != nil {
				pv = w.PrevHook(w.revs, xrefOff, pv)
			}
			d = append(d, KV{"Prev", w.prevObj(pv)})
		} else if w.PrevHook != nil {
			if pv := w.PrevHook(0, xrefOff, -1); pv >= 0 {
				d = append(d, KV{"Prev", w.prevObj(pv)})
			}
		}
		st := &Stream{Dict: d, Plain: data.Bytes()}
		switch rs.XRefFlate {
		case 1:
			st.Filters = []FilterSpec{{Name: "FlateDecode", Columns: 1, Colors: 1}}
		case 2:
			st.Filters = []FilterSpec{{Name: "FlateDecode", Predictor: 12, Columns: 1 + wa + wb, Colors: 1}}
		}
		w.writeIndirect(xnum, 0, st)
		w.state[xnum] = Entry{Aux: "XRef", Rev: w.revs}
		w.anyStreamXRef = true
	} else {
		w.buf.WriteString("xref" + w.eol())
		nums := SortedNums(locs)
		if fwdSet != nil {
			var rest []int
			for _, n := range nums {
				if !fwdSet[n] {
					rest = append(rest, n)
				}
			}
			nums = rest
		}
		for i := 0; i < len(nums); {
			j := i
			for j+1 < len(nums) && nums[j+1] == nums[j]+1 {
				j++
			}
			if rs.SplitXRef && j > i {
				j = i + (j-i)/2
			}
			fmt.Fprintf(&w.buf, "%d %d%s", nums[i], j-i+1, w.eol())
			for k := i; k <= j; k++ {
				l := written[nums[k]]
				flag := "n"
				if l.typ == 0 {
					flag = "f"
				}
				if l.a < 0 {
					l.a = 0
				}
				if l.b < 0 {
					l.b = 0
				}
				eol2 := " \n"
				switch w.st.EOL {
				case "\r\n":
					eol2 = "\r\n"
				case "\r":
					eol2 = " \r"
				}
				fmt.Fprintf(&w.buf, "%010d %05d %s%s", l.a, l.b, flag, eol2)
			}
			i = j + 1
		}
		trailer = Dict{{"Size", size}, {"Root", w.out.Root}}
		if w.out.Info != nil {
			trailer = append(trailer, KV{"Info", *w.out.Info})
		}
		if w.revs > 0 {
			pv := w.prevXRef
			if w.PrevHook != nil {
				pv = w.PrevHook(w.revs, xrefOff, pv)
			}
			trailer = append(trailer, KV{"Prev", w.prevObj(pv)})
		} else if w.PrevHook != nil {
			if pv := w.PrevHook(0, xrefOff, -1); pv >= 0 {
				trailer = append(trailer, KV{"Prev", w.prevObj(pv)})
			}
		}
		if w.Hook != nil {
			if t, ok := w.Hook("trailer", 0, trailer).(Dict); ok {
				trailer = t
			}
		}
		w.buf.WriteString("trailer" + w.eol())
		w.buf.Write(Serialise(trailer, w.st, w.r))
		w.buf.WriteString(w.eol())
	}
	if fwdSet != nil && fwdPrevPos >= 0 {
		b := w.buf.Bytes()
		copy(b[fwdPrevPos:], fmt.Sprintf("%010d", xrefOff))
		for num, pos := range fwdEntryPos {
			l := written[num]
			copy(b[pos:], fmt.Sprintf("%010d %05d", l.a, l.b))
		}
		xrefOff = fwdOff // the file is entered through the first section
	}
	fmt.Fprintf(&w.buf, "startxref%s%d%s%%%%EOF", w.eol(), xrefOff, w.eol())
	if w.r.Pct(80) {
		w.buf.WriteString(w.eol())
	}
	w.prevXRef = xrefOff

	// update the model
	for num, o := range set {
		e := Entry{Value: o, Rev: w.revs, Gen: w.gen[num]}
		if l := locs[num]; l.typ == 2 {
			e.InStm = l.a
		}
		w.state[num] = e
	}
	for cnum := range containers {
		w.state[cnum] = Entry{Aux: "ObjStm", Rev: w.revs, AuxStream: containers[cnum]}
		w.members[cnum] = contMembers[cnum]
	}
	for _, f := range freeNums {
		w.state[f] = Entry{Free: true, Rev: w.revs, Gen: w.gen[f]}
		delete(w.members, f)
	}
	snap := map[int]Entry{}
	for k, v := range w.state {
		snap[k] = v
	}
	w.out.Model = append(w.out.Model, snap)
	w.out.RevEnd = append(w.out.RevEnd, w.buf.Len())
	w.revs++
	return w.buf.Bytes()[start:]
}

// Built returns the file as committed so far.
func (w *Writer) Built() *Built {
	b := w.out
	b.Bytes = append([]byte{}, w.buf.Bytes()...)
	return &b
}

func bytesFor(v int) int {
	n := 1
	for v > 255 {
		v >>= 8
		n++
	}
	return n
}

func (w *Writer) prevObj(pv int) Obj {
	if w.PrevReal {
		return Real(float64(pv))
	}
	return pv
}

func putBE(b *bytes.Buffer, v, width int) {
	for i := width - 1; i >= 0; i-- {
		if i >= 8 {
			b.WriteByte(0)
			continue
		}
		b.WriteByte(byte(v >> (8 * uint(i))))
	}
}

func (w *Writer) writeIndirect(num, gen int, o Obj) {
	fmt.Fprintf(&w.buf, "%d %d obj", num, gen)
	st, isStream := o.(*Stream)
	if !isStream {
		if w.Hook != nil {
			o = w.Hook("obj", num, o)
		}
		if w.st.Tight && !needsSepBefore(o) && w.r.Bool() {
			// "1 0 obj<<...>>" is legal
		} else {
			w.buf.WriteString(sim.Pick(w.r, []string{" ", w.eol()}))
		}
		w.buf.Write(Serialise(o, w.st, w.r))
		w.buf.WriteString(sim.Pick(w.r, []string{" ", w.eol()}))
		w.buf.WriteString("endobj" + w.eol())
		return
	}
	if st.Raw == nil {
		plain := st.Plain
		if w.Hook != nil {
			if hp, ok := w.Hook("plain", num, Str{B: plain}).(Str); ok {
				plain = hp.B
			}
		}
		st.Raw = Encode(plain, st.Filters, w.r)
	}
	d := append(Dict{}, st.Dict...)
	var lenObj Obj = len(st.Raw)
	if st.LenIndirect {
		lenObj = Ref{st.LenRef.Num, w.gen[st.LenRef.Num]}
	}
	f, p, hasP := FilterObjs(st.Filters, w.r)
	extra := Dict{{"Length", lenObj}}
	if f != nil {
		extra = append(extra, KV{"Filter", f})
		if hasP {
			extra = append(extra, KV{"DecodeParms", p})
		}
	}
	// /Length may come anywhere in the dictionary
	if w.r.Bool() {
		d = append(extra, d...)
	} else {
		d = append(d, extra...)
	}
	raw := st.Raw
	if w.Hook != nil {
		if hd, ok := w.Hook("obj", num, d).(Dict); ok {
			d = hd
		}
		if hr, ok := w.Hook("raw", num, Str{B: raw}).(Str); ok {
			raw = hr.B
		}
	}
	w.buf.WriteString(sim.Pick(w.r, []string{" ", w.eol()}))
	w.buf.Write(Serialise(d, w.st, w.r))
	w.buf.WriteString(sim.Pick(w.r, []string{"", " ", w.eol()}))
	w.buf.WriteString("stream")
	if w.st.EOL == "\n" || w.r.Bool() {
		w.buf.WriteString("\n")
	} else {
		w.buf.WriteString("\r\n")
	}
	w.buf.Write(raw)
	w.buf.WriteString(sim.Pick(w.r, []string{w.eol(), "\n", "\r\n"}))
	w.buf.WriteString("endstream" + w.eol() + "endobj" + w.eol())
}

// OldestContainer returns the lowest-numbered live object stream, or 0.
func (w *Writer) OldestContainer() int {
	nums := SortedNums(w.members)
	if len(nums) == 0 {
		return 0
	}
	return nums[0]
}
