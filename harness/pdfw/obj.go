// Package pdfw is an independent PDF writer: it shares no code with tabula and
// is written from ISO 32000-1. It produces the file images ("the other party")
// that the simulated readers consume, and it records what it wrote — per object
// number and revision, and per page — which is the reference model for the
// checks.
package pdfw

import (
	"bytes"
	"fmt"
	"sort"
	"strconv"

	"github.com/tsawler/tabula/zzharness/sim"
)

// Obj is one of: nil (null), bool, int, Real, Str, Name, Arr, Dict, Ref, *Stream.
type Obj interface{}

type Name string
type Real float64
type Ref struct{ Num, Gen int }
type Str struct {
	B   []byte
	Hex bool // force hex spelling
}
type Arr []Obj
type KV struct {
	K string
	V Obj
}
type Dict []KV

// Raw is spelled verbatim (used by fault injection for tokens no well-formed
// writer would produce, e.g. a 400-digit integer).
type Raw string

// Stream is a stream object. Plain is the data before encoding; Raw what is stored.
type Stream struct {
	Dict    Dict // without /Length, /Filter, /DecodeParms (added when serialised)
	Plain   []byte
	Raw     []byte
	Filters []FilterSpec
	// Length handling
	LenIndirect bool
	LenRef      Ref
}

func (d Dict) Get(k string) Obj {
	for _, kv := range d {
		if kv.K == k {
			return kv.V
		}
	}
	return nil
}

func (d Dict) With(k string, v Obj) Dict {
	out := make(Dict, 0, len(d)+1)
	done := false
	for _, kv := range d {
		if kv.K == k {
			out = append(out, KV{k, v})
			done = true
		} else {
			out = append(out, kv)
		}
	}
	if !done {
		out = append(out, KV{k, v})
	}
	return out
}

func (d Dict) Without(k string) Dict {
	out := make(Dict, 0, len(d))
	for _, kv := range d {
		if kv.K != k {
			out = append(out, kv)
		}
	}
	return out
}

// Style is the spelling policy of the serialiser.
type Style struct {
	EOL       string // "\n", "\r\n" or "\r"
	Loose     bool   // extra whitespace around tokens
	Comments  bool   // comments between tokens
	HexPct    int    // percentage of strings spelled as hex strings
	NameEsc   bool   // spell some name characters as #xx
	OctalPct  int    // percentage of non-printable bytes spelled as \ddd (else raw where legal)
	DictBreak bool   // line break after each dictionary entry
	Tight     bool   // no white space where a delimiter already separates tokens
}

type ser struct {
	b  bytes.Buffer
	st Style
	r  *sim.Rand
}

func (s *ser) sep() {
	if s.st.Comments && s.r.Pct(8) {
		s.b.WriteString(" % c" + strconv.Itoa(s.r.Intn(100)) + s.st.EOL)
		return
	}
	if s.st.Loose && s.r.Pct(30) {
		s.b.WriteString(sim.Pick(s.r, []string{"  ", " \t", s.st.EOL, " " + s.st.EOL}))
		return
	}
	s.b.WriteByte(' ')
}

func needsSepBefore(o Obj) bool {
	switch o.(type) {
	case Name, Arr, Dict, Str:
		return false // starts with a delimiter
	}
	return true
}

func fmtReal(f float64) string {
	s := strconv.FormatFloat(f, 'f', -1, 64)
	if !bytes.ContainsRune([]byte(s), '.') {
		s += ".0"
	}
	return s
}

func (s *ser) obj(o Obj) {
	switch v := o.(type) {
	case nil:
		s.b.WriteString("null")
	case bool:
		if v {
			s.b.WriteString("true")
		} else {
			s.b.WriteString("false")
		}
	case int:
		s.b.WriteString(strconv.Itoa(v))
	case int64:
		s.b.WriteString(strconv.FormatInt(v, 10))
	case Real:
		s.b.WriteString(fmtReal(float64(v)))
	case Name:
		s.name(string(v))
	case Raw:
		s.b.WriteString(string(v))
	case Str:
		s.str(v)
	case Ref:
		fmt.Fprintf(&s.b, "%d %d R", v.Num, v.Gen)
	case Arr:
		s.b.WriteByte('[')
		for i, e := range v {
			switch {
			case i == 0:
				if s.st.Loose {
					s.sep()
				}
			case s.st.Tight && !(endsRegular(v[i-1]) && needsSepBefore(e)):
				// delimiter on one side: no white space needed
			default:
				s.sep()
			}
			s.obj(e)
		}
		if s.st.Loose {
			s.b.WriteByte(' ')
		}
		s.b.WriteByte(']')
	case Dict:
		s.b.WriteString("<<")
		for i, kv := range v {
			if s.st.DictBreak {
				s.b.WriteString(s.st.EOL)
			} else if s.st.Loose || (!s.st.Tight && i > 0) {
				s.sep()
			}
			s.name(kv.K)
			if needsSepBefore(kv.V) || !s.st.Tight {
				s.sep()
			}
			s.obj(kv.V)
		}
		if s.st.DictBreak {
			s.b.WriteString(s.st.EOL)
		} else if s.st.Loose {
			s.b.WriteByte(' ')
		}
		s.b.WriteString(">>")
	default:
		panic(fmt.Sprintf("pdfw: cannot serialise %T", o))
	}
}

// endsRegular: does the serialised form of o end in a regular character (so that
// a following regular token needs a separator)?
func endsRegular(o Obj) bool {
	switch o.(type) {
	case Arr, Dict, Str:
		return false
	}
	return true
}

func (s *ser) name(n string) {
	s.b.WriteByte('/')
	for i := 0; i < len(n); i++ {
		c := n[i]
		regular := c > 0x20 && c < 0x7f && !bytes.ContainsRune([]byte("()<>[]{}/%#"), rune(c))
		if !regular || (s.st.NameEsc && s.r.Pct(10)) {
			fmt.Fprintf(&s.b, "#%02X", c)
		} else {
			s.b.WriteByte(c)
		}
	}
}

func (s *ser) str(v Str) {
	if v.Hex || s.r.Pct(s.st.HexPct) {
		s.b.WriteByte('<')
		for i, c := range v.B {
			if s.st.Loose && i > 0 && s.r.Pct(5) {
				s.b.WriteByte(' ')
			}
			if s.r.Bool() {
				fmt.Fprintf(&s.b, "%02X", c)
			} else {
				fmt.Fprintf(&s.b, "%02x", c)
			}
		}
		s.b.WriteByte('>')
		return
	}
	s.b.WriteByte('(')
	for i := 0; i < len(v.B); i++ {
		c := v.B[i]
		switch {
		case c == '(' || c == ')' || c == '\\':
			s.b.WriteByte('\\')
			s.b.WriteByte(c)
		case c == '\r':
			s.b.WriteString("\\r") // a raw CR would be read back as LF
		case c == '\n':
			if s.r.Bool() {
				s.b.WriteString("\\n")
			} else {
				s.b.WriteByte('\n')
			}
		case c < 0x20 || c >= 0x7f:
			if s.r.Pct(s.st.OctalPct) {
				// three digits so that a following digit is not absorbed
				fmt.Fprintf(&s.b, "\\%03o", c)
			} else {
				s.b.WriteByte(c)
			}
		default:
			s.b.WriteByte(c)
		}
	}
	s.b.WriteByte(')')
}

// Serialise renders a direct object.
func Serialise(o Obj, st Style, r *sim.Rand) []byte {
	s := &ser{st: st, r: r}
	s.obj(o)
	return s.b.Bytes()
}

// SortedNums returns the keys of a map[int]... in ascending order.
func SortedNums[T any](m map[int]T) []int {
	out := make([]int, 0, len(m))
	for k := range m {
		out = append(out, k)
	}
	sort.Ints(out)
	return out
}
