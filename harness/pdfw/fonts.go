package pdfw

import (
	"bytes"
	"fmt"
	"sort"

	"github.com/tsawler/tabula/zzharness/sim"
)

// Font kinds the writer can produce.
const (
	FontStdBuiltin    = iota // Type1 standard-14, no /Encoding (built-in StandardEncoding)
	FontStdWinAnsi           // Type1, /Encoding /WinAnsiEncoding
	FontStdMacRoman          // Type1, /Encoding /MacRomanEncoding
	FontTrueTypeWin          // TrueType, WinAnsi, widths + descriptor
	FontType0Identity        // Type0 / Identity-H with ToUnicode (2-byte codes)
	FontSimpleToUni          // Type1 with a ToUnicode CMap overriding the encoding
	FontDifferences          // Type1 with /Encoding dict + /Differences
	numFontKinds
)

var FontKindNames = []string{"std-builtin", "std-winansi", "std-macroman", "truetype-winansi", "type0-identity", "simple-tounicode", "differences"}

// FontSpec is one font resource with its code <-> Unicode mapping.
type FontSpec struct {
	Kind     int
	Base     string
	ResName  string          // resource name, e.g. F1
	Enc      map[rune][]byte // how to write each available rune
	Alphabet []rune          // available runes (sorted, no white space except ' ')
	CMapForm int             // Type0 / ToUnicode: 0 bfchar only, 1 bfrange where possible, 2 bfrange with array
	CMapBlock int            // ToUnicode: at most this many entries per begin/end block (0 = 100, the limit of the format)
	Widths   int             // standard Type1 fonts: 0 no /Widths, else every glyph this wide (a document's own metrics)
}

var asciiSafe = func() []rune {
	var out []rune
	for c := rune(0x21); c <= 0x7e; c++ {
		if c == '\'' || c == '`' { // differ between StandardEncoding and ASCII
			continue
		}
		out = append(out, c)
	}
	return out
}()

// a few upper-half codes that are certain in the respective encodings
var winAnsiHigh = map[rune]byte{'é': 0xE9, 'ü': 0xFC, '©': 0xA9, '€': 0x80, '–': 0x96, 'Ñ': 0xD1}
var macRomanHigh = map[rune]byte{'é': 0x8E, 'ü': 0x9F, '©': 0xA9, '–': 0xD0, 'Ñ': 0x84}

// targets for ToUnicode maps: single code points, stable under NFC, left-to-right, not white space
var uniTargets = []rune{'A', 'b', 'Z', '7', 'é', 'ß', 'Ж', 'я', 'α', 'Ω', '漢', '字', 'あ', '→', '€', '∑', '✓', 'ç', 'ø', 'Ł'}

// glyph names whose Unicode value is beyond doubt (Adobe Glyph List)
var diffGlyphs = []struct {
	Name string
	R    rune
}{{"eacute", 'é'}, {"udieresis", 'ü'}, {"Euro", '€'}, {"endash", '–'}, {"bullet", '•'}, {"ntilde", 'ñ'}, {"germandbls", 'ß'}, {"copyright", '©'}}

func NewFont(kind int, resName string, r *sim.Rand) *FontSpec {
	f := &FontSpec{Kind: kind, ResName: resName, Enc: map[rune][]byte{}}
	f.Base = sim.Pick(r, []string{"Helvetica", "Times-Roman", "Courier", "Helvetica-Bold"})
	add := func(ru rune, code ...byte) { f.Enc[ru] = code }
	switch kind {
	case FontStdBuiltin:
		for _, c := range asciiSafe {
			add(c, byte(c))
		}
	case FontStdWinAnsi, FontTrueTypeWin:
		for _, c := range asciiSafe {
			add(c, byte(c))
		}
		add('\'', '\'')
		add('`', '`')
		for ru, b := range winAnsiHigh {
			add(ru, b)
		}
		if kind == FontTrueTypeWin {
			f.Base = sim.Pick(r, []string{"ArialMT", "ABCDEF+Verdana", "TimesNewRomanPSMT"})
		}
	case FontStdMacRoman:
		for _, c := range asciiSafe {
			add(c, byte(c))
		}
		add('\'', '\'')
		add('`', '`')
		for ru, b := range macRomanHigh {
			add(ru, b)
		}
	case FontType0Identity:
		f.Base = "ABCDEF+NotoSans"
		f.CMapForm = r.Intn(3)
		f.CMapBlock = sim.Pick(r, []int{0, 0, 7, 3, 1})
		// consecutive CIDs for consecutive runes make bfrange possible
		cid := 3 + r.Intn(40)
		for _, ru := range uniTargets {
			add(ru, byte(cid>>8), byte(cid))
			cid += 1 + r.Intn(3)
		}
		for c := rune('a'); c <= 'p'; c++ {
			add(c, byte(cid>>8), byte(cid))
			cid++
		}
	case FontSimpleToUni:
		f.CMapForm = r.Intn(3)
		f.CMapBlock = sim.Pick(r, []int{0, 0, 7, 3, 1})
		code := 0x21 + r.Intn(16)
		for _, ru := range uniTargets {
			add(ru, byte(code))
			code += 1 + r.Intn(2)
		}
		for c := rune('a'); c <= 'p'; c++ {
			add(c, byte(code))
			code++
		}
	case FontDifferences:
		for _, c := range asciiSafe {
			add(c, byte(c))
		}
		code := 128 + r.Intn(20)
		for _, g := range diffGlyphs {
			add(g.R, byte(code))
			code++
		}
	}
	for ru := range f.Enc {
		f.Alphabet = append(f.Alphabet, ru)
	}
	sort.Slice(f.Alphabet, func(i, j int) bool { return f.Alphabet[i] < f.Alphabet[j] })
	return f
}

// Encode maps text to the font's codes. Spaces are written as 0x20 for simple
// fonts and skipped for fonts that have no space code.
func (f *FontSpec) Encode(text string) []byte {
	var out []byte
	for _, ru := range text {
		if code, ok := f.Enc[ru]; ok {
			out = append(out, code...)
		} else if ru == ' ' && f.Kind != FontType0Identity && f.Kind != FontSimpleToUni {
			out = append(out, ' ')
		} else {
			panic(fmt.Sprintf("pdfw: font %s cannot encode %q", f.ResName, ru))
		}
	}
	return out
}

// HasSpace reports whether a space may appear inside strings of this font.
func (f *FontSpec) HasSpace() bool { return f.Kind != FontType0Identity && f.Kind != FontSimpleToUni }

// Objects returns the font dictionary and any auxiliary objects, allocating
// numbers through alloc. indirectParts decides whether sub-objects (encoding,
// descriptor, descendant) are indirect.
func (f *FontSpec) Objects(alloc func() int, genOf func(int) int, indirectParts bool, r *sim.Rand) (fontDict Dict, aux map[int]Obj) {
	aux = map[int]Obj{}
	indirect := func(o Obj) Obj {
		if _, isStream := o.(*Stream); !isStream && !indirectParts {
			return o
		}
		n := alloc()
		aux[n] = o
		return Ref{n, genOf(n)}
	}
	switch f.Kind {
	case FontStdBuiltin:
		fontDict = Dict{{"Type", Name("Font")}, {"Subtype", Name("Type1")}, {"BaseFont", Name(f.Base)}}
	case FontStdWinAnsi:
		fontDict = Dict{{"Type", Name("Font")}, {"Subtype", Name("Type1")}, {"BaseFont", Name(f.Base)}, {"Encoding", Name("WinAnsiEncoding")}}
	case FontStdMacRoman:
		fontDict = Dict{{"Type", Name("Font")}, {"Subtype", Name("Type1")}, {"BaseFont", Name(f.Base)}, {"Encoding", Name("MacRomanEncoding")}}
	}
	if f.Widths > 0 && (f.Kind == FontStdBuiltin || f.Kind == FontStdWinAnsi || f.Kind == FontStdMacRoman) {
		// the document brings its own metrics for a standard font (legal, and common for subsets)
		widths := Arr{}
		for c := 32; c <= 255; c++ {
			widths = append(widths, f.Widths+(c%7)*10)
		}
		fontDict = append(fontDict, KV{"FirstChar", 32}, KV{"LastChar", 255}, KV{"Widths", indirect(widths)})
	}
	switch f.Kind {
	case FontTrueTypeWin:
		widths := Arr{}
		for c := 32; c <= 255; c++ {
			widths = append(widths, 500+(c*7)%300)
		}
		desc := Dict{{"Type", Name("FontDescriptor")}, {"FontName", Name(f.Base)}, {"Flags", 32},
			{"FontBBox", Arr{-100, -200, 1000, 900}}, {"ItalicAngle", 0}, {"Ascent", 900}, {"Descent", -200},
			{"CapHeight", 700}, {"StemV", 80}}
		fontDict = Dict{{"Type", Name("Font")}, {"Subtype", Name("TrueType")}, {"BaseFont", Name(f.Base)},
			{"FirstChar", 32}, {"LastChar", 255}, {"Widths", indirect(widths)}, {"FontDescriptor", indirect(desc)},
			{"Encoding", Name("WinAnsiEncoding")}}
	case FontType0Identity:
		desc := Dict{{"Type", Name("FontDescriptor")}, {"FontName", Name(f.Base)}, {"Flags", 4},
			{"FontBBox", Arr{-100, -200, 1000, 900}}, {"ItalicAngle", 0}, {"Ascent", 900}, {"Descent", -200},
			{"CapHeight", 700}, {"StemV", 80}}
		cid := Dict{{"Type", Name("Font")}, {"Subtype", Name("CIDFontType2")}, {"BaseFont", Name(f.Base)},
			{"CIDSystemInfo", Dict{{"Registry", Str{B: []byte("Adobe")}}, {"Ordering", Str{B: []byte("Identity")}}, {"Supplement", 0}}},
			{"FontDescriptor", indirect(desc)}, {"DW", 1000}}
		tu := &Stream{Plain: f.toUnicodeCMap(2, r)}
		fontDict = Dict{{"Type", Name("Font")}, {"Subtype", Name("Type0")}, {"BaseFont", Name(f.Base)},
			{"Encoding", Name("Identity-H")}, {"DescendantFonts", Arr{indirect(cid)}}, {"ToUnicode", indirect(tu)}}
	case FontSimpleToUni:
		tu := &Stream{Plain: f.toUnicodeCMap(1, r)}
		fontDict = Dict{{"Type", Name("Font")}, {"Subtype", Name("Type1")}, {"BaseFont", Name(f.Base)},
			{"Encoding", Name("WinAnsiEncoding")}, {"ToUnicode", indirect(tu)}}
	case FontDifferences:
		var diffs Arr
		type cg struct {
			code int
			name string
		}
		var cgs []cg
		for _, g := range diffGlyphs {
			cgs = append(cgs, cg{int(f.Enc[g.R][0]), g.Name})
		}
		sort.Slice(cgs, func(i, j int) bool { return cgs[i].code < cgs[j].code })
		last := -2
		for _, c := range cgs {
			if c.code != last+1 {
				diffs = append(diffs, c.code)
			}
			diffs = append(diffs, Name(c.name))
			last = c.code
		}
		enc := Dict{{"Type", Name("Encoding")}}
		if r.Bool() {
			enc = append(enc, KV{"BaseEncoding", Name("WinAnsiEncoding")})
		}
		enc = append(enc, KV{"Differences", diffs})
		fontDict = Dict{{"Type", Name("Font")}, {"Subtype", Name("Type1")}, {"BaseFont", Name(f.Base)}, {"Encoding", indirect(enc)}}
	}
	return fontDict, aux
}

// toUnicodeCMap renders the code -> Unicode map as a CMap program.
func (f *FontSpec) toUnicodeCMap(codeBytes int, r *sim.Rand) []byte {
	type pair struct {
		code int
		ru   rune
	}
	var ps []pair
	for ru, c := range f.Enc {
		v := 0
		for _, b := range c {
			v = v<<8 | int(b)
		}
		ps = append(ps, pair{v, ru})
	}
	sort.Slice(ps, func(i, j int) bool { return ps[i].code < ps[j].code })
	hexCode := func(v int) string {
		if codeBytes == 2 {
			return fmt.Sprintf("<%04X>", v)
		}
		return fmt.Sprintf("<%02X>", v)
	}
	hexUni := func(ru rune) string { return fmt.Sprintf("<%04X>", ru) } // BMP only by construction
	var b bytes.Buffer
	b.WriteString("/CIDInit /ProcSet findresource begin\n12 dict begin\nbegincmap\n")
	b.WriteString("/CIDSystemInfo << /Registry (Adobe) /Ordering (UCS) /Supplement 0 >> def\n")
	b.WriteString("/CMapName /Adobe-Identity-UCS def\n/CMapType 2 def\n")
	if codeBytes == 2 {
		b.WriteString("1 begincodespacerange\n<0000> <FFFF>\nendcodespacerange\n")
	} else {
		b.WriteString("1 begincodespacerange\n<00> <FF>\nendcodespacerange\n")
	}
	// split into runs of consecutive (code, rune)
	var chars []pair
	type run struct {
		lo, hi int
		ru     rune
	}
	var runs []run
	for i := 0; i < len(ps); {
		j := i
		for j+1 < len(ps) && ps[j+1].code == ps[j].code+1 && ps[j+1].ru == ps[j].ru+1 && (ps[j+1].code&0xff) != 0 {
			j++
		}
		if j > i && f.CMapForm >= 1 {
			runs = append(runs, run{ps[i].code, ps[j].code, ps[i].ru})
		} else {
			for k := i; k <= j; k++ {
				chars = append(chars, ps[k])
			}
		}
		i = j + 1
	}
	blk := f.CMapBlock
	if blk <= 0 || blk > 100 {
		blk = 100
	}
	for i := 0; i < len(chars); i += blk {
		end := sim.MinInt(i+blk, len(chars))
		fmt.Fprintf(&b, "%d beginbfchar\n", end-i)
		for _, p := range chars[i:end] {
			fmt.Fprintf(&b, "%s %s\n", hexCode(p.code), hexUni(p.ru))
		}
		b.WriteString("endbfchar\n")
	}
	for len(runs) > 0 {
		part := runs
		if len(part) > blk {
			part = runs[:blk]
		}
		runs = runs[len(part):]
		fmt.Fprintf(&b, "%d beginbfrange\n", len(part))
		for _, rn := range part {
			if f.CMapForm == 2 {
				fmt.Fprintf(&b, "%s %s [", hexCode(rn.lo), hexCode(rn.hi))
				for k := 0; k <= rn.hi-rn.lo; k++ {
					if k > 0 {
						b.WriteByte(' ')
					}
					b.WriteString(hexUni(rn.ru + rune(k)))
				}
				b.WriteString("]\n")
			} else {
				fmt.Fprintf(&b, "%s %s %s\n", hexCode(rn.lo), hexCode(rn.hi), hexUni(rn.ru))
			}
		}
		b.WriteString("endbfrange\n")
	}
	b.WriteString("endcmap\nCMapName currentdict /CMap defineresource pop\nend\nend\n")
	return b.Bytes()
}
