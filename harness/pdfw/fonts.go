package pdfw

import (
	"bytes"
	"fmt"
	"sort"

	"github.com/tsawler/tabula/zzharness/sim"
)

// Font kinds the writer can produce.
const (
	FontStdBuiltin    = iota // Type1 standard-14, no /Encoding (built-in StandardEncoding)
	FontStdWinAnsi           // Type1, /Encoding /WinAnsiEncoding
	FontStdMacRoman          // Type1, /Encoding /MacRomanEncoding
	FontTrueTypeWin          // TrueType, WinAnsi, widths + descriptor
	FontType0Identity        // Type0 / Identity-H with ToUnicode (2-byte codes)
	FontSimpleToUni          // Type1 with a ToUnicode CMap overriding the encoding
	FontDifferences          // Type1 with /Encoding dict + /Differences
	numFontKinds
)

var FontKindNames = []string{"std-builtin", "std-winansi", "std-macroman", "truetype-winansi", "type0-identity", "simple-tounicode", "differences"}

// FontSpec is one font resource with its code <-> Unicode mapping.
type FontSpec struct {
	Kind     int
	Base     string
	ResName  string          // resource name, e.g. F1
	Enc      map[rune][]byte // how to write each available rune
	Alphabet []rune          // available runes (sorted, no white space except ' ')
	CMapForm int             // Type0 / ToUnicode: 0 bfchar only, 1 bfrange where possible, 2 bfrange with array
	CMapBlock int            // ToUnicode: at most this many entries per begin/end block (0 = 100, the limit of the format)
	Widths   int             // standard Type1 fonts: 0 no /Widths, else every glyph this wide (a document's own metrics)
	Embed    bool            // TrueType: the descriptor carries a font program (/FontFile2)
}

var asciiSafe = func() []rune {
	var out []rune
	for c := rune(0x21); c <= 0x7e; c++ {
		if c == '\'' || c == '`' { // differ between StandardEncoding and ASCII
			continue
		}
		out = append(out, c)
	}
	return out
}()

// a few upper-half codes that are certain in the respective encodings
var winAnsiHigh = map[rune]byte{'é': 0xE9, 'ü': 0xFC, '©': 0xA9, '€': 0x80, '–': 0x96, 'Ñ': 0xD1}
var macRomanHigh = map[rune]byte{'é': 0x8E, 'ü': 0x9F, '©': 0xA9, '–': 0xD0, 'Ñ': 0x84}

// targets for ToUnicode maps: single code points, stable under NFC, left-to-right, not white space
var uniTargets = []rune{'A', 'b', 'Z', '7', 'é', 'ß', 'Ж', 'я', 'α', 'Ω', '漢', '字', 'あ', '→', '€', '∑', '✓', 'ç', 'ø', 'Ł'}

// glyph names whose Unicode value is beyond doubt (Adobe Glyph List)
var diffGlyphs = []struct {
	Name string
	R    rune
}{{"eacute", 'é'}, {"udieresis", 'ü'}, {"Euro", '€'}, {"endash", '–'}, {"bullet", '•'}, {"ntilde", 'ñ'}, {"germandbls", 'ß'}, {"copyright", '©'}}

func NewFont(kind int, resName string, r *sim.Rand) *FontSpec {
	f := &FontSpec{Kind: kind, ResName: resName, Enc: map[rune][]byte{}}
	f.Base = sim.Pick(r, []string{"Helvetica", "Times-Roman", "Courier", "Helvetica-Bold"})
	add := func(ru rune, code ...byte) { f.Enc[ru] = code }
	switch kind {
	case FontStdBuiltin:
		for _, c := range asciiSafe {
			add(c, byte(c))
		}
	case FontStdWinAnsi, FontTrueTypeWin:
		for _, c := range asciiSafe {
			add(c, byte(c))
		}
		add('\'', '\'')
		add('`', '`')
		for ru, b := range winAnsiHigh {
			add(ru, b)
		}
		if kind == FontTrueTypeWin {
			f.Base = sim.Pick(r, []string{"ArialMT", "ABCDEF+Verdana", "TimesNewRomanPSMT"})
			f.Embed = r.Pct(60)
		}
	case FontStdMacRoman:
		for _, c := range asciiSafe {
			add(c, byte(c))
		}
		add('\'', '\'')
		add('`', '`')
		for ru, b := range macRomanHigh {
			add(ru, b)
		}
	case FontType0Identity:
		f.Base = "ABCDEF+NotoSans"
		f.CMapForm = r.Intn(3)
		f.CMapBlock = sim.Pick(r, []int{0, 0, 7, 3, 1})
		// consecutive CIDs for consecutive runes make bfrange possible
		cid := 3 + r.Intn(40)
		for _, ru := range uniTargets {
			add(ru, byte(cid>>8), byte(cid))
			cid += 1 + r.Intn(3)
		}
		for c := rune('a'); c <= 'p'; c++ {
			add(c, byte(cid>>8), byte(cid))
			cid++
		}
	case FontSimpleToUni:
		f.CMapForm = r.Intn(3)
		f.CMapBlock = sim.Pick(r, []int{0, 0, 7, 3, 1})
		code := 0x21 + r.Intn(16)
		for _, ru := range uniTargets {
			add(ru, byte(code))
			code += 1 + r.Intn(2)
		}
		for c := rune('a'); c <= 'p'; c++ {
			add(c, byte(code))
			code++
		}
	case FontDifferences:
		for _, c := range asciiSafe {
			add(c, byte(c))
		}
		code := 128 + r.Intn(20)
		for _, g := range diffGlyphs {
			add(g.R, byte(code))
			code++
		}
	}
	for ru := range f.Enc {
		f.Alphabet = append(f.Alphabet, ru)
	}
	sort.Slice(f.Alphabet, func(i, j int) bool { return f.Alphabet[i] < f.Alphabet[j] })
	return f
}

// Encode maps text to the font's codes. Spaces are written as 0x20 for simple
// fonts and skipped for fonts that have no space code.
func (f *FontSpec) Encode(text string) []byte {
	var out []byte
	for _, ru := range text {
		if code, ok := f.Enc[ru]; ok {
			out = append(out, code...)
		} else if ru == ' ' && f.Kind != FontType0Identity && f.Kind != FontSimpleToUni {
			out = append(out, ' ')
		} else {
			panic(fmt.Sprintf("pdfw: font %s cannot encode %q", f.ResName, ru))
		}
	}
	return out
}

// HasSpace reports whether a space may appear inside strings of this font.
func (f *FontSpec) HasSpace() bool { return f.Kind != FontType0Identity && f.Kind != FontSimpleToUni }

// Objects returns the font dictionary and any auxiliary objects, allocating
// numbers through alloc. indirectParts decides whether sub-objects (encoding,
// descriptor, descendant) are indirect.
func (f *FontSpec) Objects(alloc func() int, genOf func(int) int, indirectParts bool, r *sim.Rand) (fontDict Dict, aux map[int]Obj) {
	aux = map[int]Obj{}
	indirect := func(o Obj) Obj {
		if _, isStream := o.(*Stream); !isStream && !indirectParts {
			return o
		}
		n := alloc()
		aux[n] = o
		return Ref{n, genOf(n)}
	}
	switch f.Kind {
	case FontStdBuiltin:
		fontDict = Dict{{"Type", Name("Font")}, {"Subtype", Name("Type1")}, {"BaseFont", Name(f.Base)}}
	case FontStdWinAnsi:
		fontDict = Dict{{"Type", Name("Font")}, {"Subtype", Name("Type1")}, {"BaseFont", Name(f.Base)}, {"Encoding", Name("WinAnsiEncoding")}}
	case FontStdMacRoman:
		fontDict = Dict{{"Type", Name("Font")}, {"Subtype", Name("Type1")}, {"BaseFont", Name(f.Base)}, {"Encoding", Name("MacRomanEncoding")}}
	}
	if f.Widths > 0 && (f.Kind == FontStdBuiltin || f.Kind == FontStdWinAnsi || f.Kind == FontStdMacRoman) {
		// the document brings its own metrics for a standard font (legal, and common for subsets)
		widths := Arr{}
		for c := 32; c <= 255; c++ {
			widths = append(widths, f.Widths+(c%7)*10)
		}
		fontDict = append(fontDict, KV{"FirstChar", 32}, KV{"LastChar", 255}, KV{"Widths", indirect(widths)})
	}
	switch f.Kind {
	case FontTrueTypeWin:
		widths := Arr{}
		for c := 32; c <= 255; c++ {
			widths = append(widths, 500+(c*7)%300)
		}
		desc := Dict{{"Type", Name("FontDescriptor")}, {"FontName", Name(f.Base)}, {"Flags", 32},
			{"FontBBox", Arr{-100, -200, 1000, 900}}, {"ItalicAngle", 0}, {"Ascent", 900}, {"Descent", -200},
			{"CapHeight", 700}, {"StemV", 80}}
		if f.Embed {
			prog := trueTypeProgram()
			desc = append(desc, KV{"FontFile2", indirect(&Stream{Dict: Dict{{"Length1", len(prog)}}, Plain: prog})})
		}
		fontDict = Dict{{"Type", Name("Font")}, {"Subtype", Name("TrueType")}, {"BaseFont", Name(f.Base)},
			{"FirstChar", 32}, {"LastChar", 255}, {"Widths", indirect(widths)}, {"FontDescriptor", indirect(desc)},
			{"Encoding", Name("WinAnsiEncoding")}}
	case FontType0Identity:
		desc := Dict{{"Type", Name("FontDescriptor")}, {"FontName", Name(f.Base)}, {"Flags", 4},
			{"FontBBox", Arr{-100, -200, 1000, 900}}, {"ItalicAngle", 0}, {"Ascent", 900}, {"Descent", -200},
			{"CapHeight", 700}, {"StemV", 80}}
		cid := Dict{{"Type", Name("Font")}, {"Subtype", Name("CIDFontType2")}, {"BaseFont", Name(f.Base)},
			{"CIDSystemInfo", Dict{{"Registry", Str{B: []byte("Adobe")}}, {"Ordering", Str{B: []byte("Identity")}}, {"Supplement", 0}}},
			{"FontDescriptor", indirect(desc)}, {"DW", 1000}}
		tu := &Stream{Plain: f.toUnicodeCMap(2, r)}
		fontDict = Dict{{"Type", Name("Font")}, {"Subtype", Name("Type0")}, {"BaseFont", Name(f.Base)},
			{"Encoding", Name("Identity-H")}, {"DescendantFonts", Arr{indirect(cid)}}, {"ToUnicode", indirect(tu)}}
	case FontSimpleToUni:
		tu := &Stream{Plain: f.toUnicodeCMap(1, r)}
		fontDict = Dict{{"Type", Name("Font")}, {"Subtype", Name("Type1")}, {"BaseFont", Name(f.Base)},
			{"Encoding", Name("WinAnsiEncoding")}, {"ToUnicode", indirect(tu)}}
	case FontDifferences:
		var diffs Arr
		type cg struct {
			code int
			name string
		}
		var cgs []cg
		for _, g := range diffGlyphs {
			cgs = append(cgs, cg{int(f.Enc[g.R][0]), g.Name})
		}
		sort.Slice(cgs, func(i, j int) bool { return cgs[i].code < cgs[j].code })
		last := -2
		for _, c := range cgs {
			if c.code != last+1 {
				diffs = append(diffs, c.code)
			}
			diffs = append(diffs, Name(c.name))
			last = c.code
		}
		enc := Dict{{"Type", Name("Encoding")}}
		if r.Bool() {
			enc = append(enc, KV{"BaseEncoding", Name("WinAnsiEncoding")})
		}
		enc = append(enc, KV{"Differences", diffs})
		fontDict = Dict{{"Type", Name("Font")}, {"Subtype", Name("Type1")}, {"BaseFont", Name(f.Base)}, {"Encoding", indirect(enc)}}
	}
	return fontDict, aux
}

// toUnicodeCMap renders the code -> Unicode map as a CMap program.
func (f *FontSpec) toUnicodeCMap(codeBytes int, r *sim.Rand) []byte {
	type pair struct {
		code int
		ru   rune
	}
	var ps []pair
	for ru, c := range f.Enc {
		v := 0
		for _, b := range c {
			v = v<<8 | int(b)
		}
		ps = append(ps, pair{v, ru})
	}
	sort.Slice(ps, func(i, j int) bool { return ps[i].code < ps[j].code })
	hexCode := func(v int) string {
		if codeBytes == 2 {
			return fmt.Sprintf("<%04X>", v)
		}
		return fmt.Sprintf("<%02X>", v)
	}
	hexUni := func(ru rune) string { return fmt.Sprintf("<%04X>", ru) } // BMP only by construction
	var b bytes.Buffer
	b.WriteString("/CIDInit /ProcSet findresource begin\n12 dict begin\nbegincmap\n")
	b.WriteString("/CIDSystemInfo << /Registry (Adobe) /Ordering (UCS) /Supplement 0 >> def\n")
	b.WriteString("/CMapName /Adobe-Identity-UCS def\n/CMapType 2 def\n")
	if codeBytes == 2 {
		b.WriteString("1 begincodespacerange\n<0000> <FFFF>\nendcodespacerange\n")
	} else {
		b.WriteString("1 begincodespacerange\n<00> <FF>\nendcodespacerange\n")
	}
	// split into runs of consecutive (code, rune)
	var chars []pair
	type run struct {
		lo, hi int
		ru     rune
	}
	var runs []run
	for i := 0; i < len(ps); {
		j := i
		for j+1 < len(ps) && ps[j+1].code == ps[j].code+1 && ps[j+1].ru == ps[j].ru+1 && (ps[j+1].code&0xff) != 0 {
			j++
		}
		if j > i && f.CMapForm >= 1 {
			runs = append(runs, run{ps[i].code, ps[j].code, ps[i].ru})
		} else {
			for k := i; k <= j; k++ {
				chars = append(chars, ps[k])
			}
		}
		i = j + 1
	}
	blk := f.CMapBlock
	if blk <= 0 || blk > 100 {
		blk = 100
	}
	for i := 0; i < len(chars); i += blk {
		end := sim.MinInt(i+blk, len(chars))
		fmt.Fprintf(&b, "%d beginbfchar\n", end-i)
		for _, p := range chars[i:end] {
			fmt.Fprintf(&b, "%s %s\n", hexCode(p.code), hexUni(p.ru))
		}
		b.WriteString("endbfchar\n")
	}
	for len(runs) > 0 {
		part := runs
		if len(part) > blk {
			part = runs[:blk]
		}
		runs = runs[len(part):]
		fmt.Fprintf(&b, "%d beginbfrange\n", len(part))
		for _, rn := range part {
			if f.CMapForm == 2 {
				fmt.Fprintf(&b, "%s %s [", hexCode(rn.lo), hexCode(rn.hi))
				for k := 0; k <= rn.hi-rn.lo; k++ {
					if k > 0 {
						b.WriteByte(' ')
					}
					b.WriteString(hexUni(rn.ru + rune(k)))
				}
				b.WriteString("]\n")
			} else {
				fmt.Fprintf(&b, "%s %s %s\n", hexCode(rn.lo), hexCode(rn.hi), hexUni(rn.ru))
			}
		}
		b.WriteString("endbfrange\n")
	}
	b.WriteString("endcmap\nCMapName currentdict /CMap defineresource pop\nend\nend\n")
	return b.Bytes()
}

// trueTypeProgram builds a small, well-formed sfnt: offset table, table directory
// and the tables a text extractor may look at (head, hhea, hmtx, maxp, cmap with a
// format 4 subtable for the Windows Unicode BMP encoding). Glyph outlines are left
// out, as in a font program stripped for text-only use.
func trueTypeProgram() []byte {
	be16 := func(b *bytes.Buffer, v int) { b.WriteByte(byte(v >> 8)); b.WriteByte(byte(v)) }
	be32 := func(b *bytes.Buffer, v int) { be16(b, v>>16); be16(b, v&0xffff) }
	var head, hhea, hmtx, maxp, cmap bytes.Buffer
	// head (54 bytes)
	be32(&head, 0x00010000) // version
	be32(&head, 0x00010000) // fontRevision
	be32(&head, 0)          // checkSumAdjustment
	be32(&head, 0x5F0F3CF5) // magic
	be16(&head, 0)          // flags
	be16(&head, 1000)       // unitsPerEm
	for i := 0; i < 4; i++ {
		be32(&head, 0) // created, modified
	}
	be16(&head, 0xFF9C) // xMin -100
	be16(&head, 0xFF38) // yMin -200
	be16(&head, 1000)
	be16(&head, 900)
	be16(&head, 0) // macStyle
	be16(&head, 8) // lowestRecPPEM
	be16(&head, 2) // fontDirectionHint
	be16(&head, 0) // indexToLocFormat
	be16(&head, 0) // glyphDataFormat
	// hhea (36 bytes)
	be32(&hhea, 0x00010000)
	be16(&hhea, 900)
	be16(&hhea, 0xFF38)
	be16(&hhea, 0)
	be16(&hhea, 1000) // advanceWidthMax
	for i := 0; i < 11; i++ {
		be16(&hhea, 0)
	}
	const nGlyphs = 6
	be16(&hhea, nGlyphs) // numberOfHMetrics
	for i := 0; i < nGlyphs; i++ {
		be16(&hmtx, 500+20*i)
		be16(&hmtx, 0)
	}
	// maxp version 0.5
	be32(&maxp, 0x00005000)
	be16(&maxp, nGlyphs)
	// cmap: one subtable (3,1), format 4, segments [0x20..0x24] and the closing [0xFFFF]
	be16(&cmap, 0)
	be16(&cmap, 1)
	be16(&cmap, 3)
	be16(&cmap, 1)
	be32(&cmap, 12)
	segs := [][3]int{{0x20, 0x24, 0x10000 - 0x1F}, {0xFFFF, 0xFFFF, 1}} // start, end, idDelta
	be16(&cmap, 4)
	be16(&cmap, 16+8*len(segs))
	be16(&cmap, 0)
	be16(&cmap, 2*len(segs))
	be16(&cmap, 4) // searchRange
	be16(&cmap, 1) // entrySelector
	be16(&cmap, 0) // rangeShift
	for _, sg := range segs {
		be16(&cmap, sg[1])
	}
	be16(&cmap, 0)
	for _, sg := range segs {
		be16(&cmap, sg[0])
	}
	for _, sg := range segs {
		be16(&cmap, sg[2])
	}
	for range segs {
		be16(&cmap, 0)
	}
	tables := []struct {
		tag  string
		data []byte
	}{{"cmap", cmap.Bytes()}, {"head", head.Bytes()}, {"hhea", hhea.Bytes()}, {"hmtx", hmtx.Bytes()}, {"maxp", maxp.Bytes()}}
	var out bytes.Buffer
	be32(&out, 0x00010000)
	be16(&out, len(tables))
	be16(&out, 64) // searchRange
	be16(&out, 2)  // entrySelector
	be16(&out, len(tables)*16-64)
	off := 12 + 16*len(tables)
	for _, t := range tables {
		out.WriteString(t.tag)
		sum := 0
		for i := 0; i < len(t.data); i += 4 {
			w := 0
			for k := 0; k < 4; k++ {
				w <<= 8
				if i+k < len(t.data) {
					w |= int(t.data[i+k])
				}
			}
			sum = (sum + w) & 0xFFFFFFFF
		}
		be32(&out, sum)
		be32(&out, off)
		be32(&out, len(t.data))
		off += (len(t.data) + 3) &^ 3
	}
	for _, t := range tables {
		out.Write(t.data)
		for out.Len()%4 != 0 {
			out.WriteByte(0)
		}
	}
	return out.Bytes()
}
