package pdfw

import (
	"bytes"
	"compress/zlib"
	"fmt"

	"github.com/tsawler/tabula/zzharness/sim"
)

// FilterSpec is one stage of a filter chain, in decoding order.
type FilterSpec struct {
	Name      string // FlateDecode | ASCIIHexDecode | ASCII85Decode
	Predictor int    // 0/1 none, 2 TIFF, 10..15 PNG (Flate only)
	Columns   int
	Colors    int
	ParmsMode int // 0 dict when needed / absent otherwise, 1 explicit null, 2 dict with defaults spelled out
}

// Encode applies the chain in reverse so that decoding in array order restores plain.
func Encode(plain []byte, chain []FilterSpec, r *sim.Rand) []byte {
	data := plain
	for i := len(chain) - 1; i >= 0; i-- {
		f := chain[i]
		switch f.Name {
		case "FlateDecode":
			if f.Predictor >= 2 {
				data = predict(data, f, r)
			}
			var b bytes.Buffer
			zw, _ := zlib.NewWriterLevel(&b, sim.Pick(r, []int{zlib.NoCompression, zlib.BestSpeed, zlib.DefaultCompression, zlib.BestCompression}))
			zw.Write(data)
			zw.Close()
			data = b.Bytes()
		case "ASCIIHexDecode":
			data = hexEncode(data, r)
		case "ASCII85Decode":
			data = a85Encode(data, r)
		default:
			panic("pdfw: unknown filter " + f.Name)
		}
	}
	return data
}

// FilterObjs returns the /Filter and /DecodeParms values for a chain.
// hasParms distinguishes "/DecodeParms null" (parms == nil, hasParms) from an
// absent key.
func FilterObjs(chain []FilterSpec, r *sim.Rand) (filter Obj, parms Obj, hasParms bool) {
	if len(chain) == 0 {
		return nil, nil, false
	}
	var names Arr
	var ps Arr
	anyParm := false
	for _, f := range chain {
		names = append(names, Name(f.Name))
		var p Obj
		if f.Name == "FlateDecode" && f.Predictor >= 2 {
			d := Dict{{"Predictor", f.Predictor}}
			if f.Columns != 1 || f.ParmsMode == 2 {
				d = append(d, KV{"Columns", f.Columns})
			}
			if f.Colors != 1 || f.ParmsMode == 2 {
				d = append(d, KV{"Colors", f.Colors})
			}
			if f.ParmsMode == 2 {
				d = append(d, KV{"BitsPerComponent", 8})
			}
			p = d
			anyParm = true
		} else if f.ParmsMode == 2 && f.Name == "FlateDecode" {
			p = Dict{{"Predictor", 1}}
			anyParm = true
		}
		ps = append(ps, p)
	}
	if len(chain) == 1 && r.Pct(70) {
		if anyParm {
			return names[0], ps[0], true
		}
		if chain[0].ParmsMode == 1 {
			return names[0], nil, true
		}
		return names[0], nil, false
	}
	if anyParm {
		return names, ps, true // array with null entries for stages without parameters
	}
	return names, nil, false
}

// predict applies the predictor on the encoder side: the output is what the
// decoder's predictor reversal turns back into data. Rows are padded by the
// caller's choice of Columns dividing len(data) (see ChooseGeometry).
func predict(data []byte, f FilterSpec, r *sim.Rand) []byte {
	bpp := f.Colors // 8 bits per component
	rowLen := f.Columns * f.Colors
	if rowLen <= 0 {
		panic(fmt.Sprintf("pdfw: predictor geometry %d", rowLen))
	}
	if len(data)%rowLen != 0 {
		// fault injection may have changed the length after the geometry was chosen:
		// pad the last row with white space (harmless at the end of a content program)
		data = append(append([]byte{}, data...), bytes.Repeat([]byte{' '}, rowLen-len(data)%rowLen)...)
	}
	rows := len(data) / rowLen
	if f.Predictor == 2 {
		out := make([]byte, len(data))
		for y := 0; y < rows; y++ {
			row := data[y*rowLen : (y+1)*rowLen]
			o := out[y*rowLen : (y+1)*rowLen]
			for i := range row {
				if i < bpp {
					o[i] = row[i]
				} else {
					o[i] = row[i] - row[i-bpp]
				}
			}
		}
		return out
	}
	// PNG predictors: each row is prefixed by its filter type.
	out := make([]byte, 0, len(data)+rows)
	prev := make([]byte, rowLen)
	for y := 0; y < rows; y++ {
		row := data[y*rowLen : (y+1)*rowLen]
		ft := f.Predictor - 10
		if f.Predictor == 15 {
			ft = r.Intn(5)
		}
		out = append(out, byte(ft))
		for i := range row {
			var a, b, c byte
			if i >= bpp {
				a = row[i-bpp]
				c = prev[i-bpp]
			}
			b = prev[i]
			var p byte
			switch ft {
			case 0:
				p = 0
			case 1:
				p = a
			case 2:
				p = b
			case 3:
				p = byte((int(a) + int(b)) / 2)
			case 4:
				p = paeth(a, b, c)
			}
			out = append(out, row[i]-p)
		}
		prev = row
	}
	return out
}

func paeth(a, b, c byte) byte {
	p := int(a) + int(b) - int(c)
	pa, pb, pc := abs(p-int(a)), abs(p-int(b)), abs(p-int(c))
	if pa <= pb && pa <= pc {
		return a
	}
	if pb <= pc {
		return b
	}
	return c
}

func abs(x int) int {
	if x < 0 {
		return -x
	}
	return x
}

func hexEncode(data []byte, r *sim.Rand) []byte {
	var b bytes.Buffer
	for i, c := range data {
		if i > 0 && i%32 == 0 {
			b.WriteByte('\n')
		}
		fmt.Fprintf(&b, "%02X", c)
	}
	b.WriteByte('>')
	return b.Bytes()
}

func a85Encode(data []byte, r *sim.Rand) []byte {
	var b bytes.Buffer
	col := 0
	emit := func(c byte) {
		b.WriteByte(c)
		col++
		if col%64 == 0 {
			b.WriteByte('\n')
		}
	}
	for i := 0; i < len(data); i += 4 {
		n := len(data) - i
		if n > 4 {
			n = 4
		}
		var v uint32
		for j := 0; j < 4; j++ {
			v <<= 8
			if j < n {
				v |= uint32(data[i+j])
			}
		}
		if n == 4 && v == 0 {
			emit('z')
			continue
		}
		var d [5]byte
		for j := 4; j >= 0; j-- {
			d[j] = byte(v%85) + '!'
			v /= 85
		}
		for j := 0; j < n+1; j++ {
			emit(d[j])
		}
	}
	b.WriteString("~>")
	return b.Bytes()
}

// ChooseChain draws a filter chain for a stream of n plain bytes. Predictors
// need a row geometry that divides n, so they are only chosen when one exists.
func ChooseChain(r *sim.Rand, n int, allowPredictor bool) []FilterSpec {
	switch r.Intn(10) {
	case 0, 1, 2:
		return nil
	case 3, 4, 5:
		f := FilterSpec{Name: "FlateDecode", Columns: 1, Colors: 1, ParmsMode: r.Intn(3)}
		if allowPredictor && n > 0 && r.Pct(40) {
			if cols, colors, ok := chooseGeometry(r, n); ok {
				f.Predictor = sim.Pick(r, []int{2, 10, 11, 12, 13, 14, 15})
				f.Columns, f.Colors = cols, colors
				if f.ParmsMode == 1 {
					f.ParmsMode = 0
				}
			}
		}
		return []FilterSpec{f}
	case 6:
		return []FilterSpec{{Name: "ASCIIHexDecode"}}
	case 7:
		return []FilterSpec{{Name: "ASCII85Decode"}}
	case 8:
		return []FilterSpec{{Name: sim.Pick(r, []string{"ASCII85Decode", "ASCIIHexDecode"})}, {Name: "FlateDecode", Columns: 1, Colors: 1}}
	default:
		return []FilterSpec{{Name: "ASCIIHexDecode"}, {Name: "ASCII85Decode"}, {Name: "FlateDecode", Columns: 1, Colors: 1}}
	}
}

func chooseGeometry(r *sim.Rand, n int) (cols, colors int, ok bool) {
	var cands [][2]int
	for colors = 1; colors <= 4; colors++ {
		for cols = 1; cols <= 64; cols++ {
			if n%(cols*colors) == 0 {
				cands = append(cands, [2]int{cols, colors})
			}
		}
	}
	if len(cands) == 0 {
		return 0, 0, false
	}
	c := sim.Pick(r, cands)
	return c[0], c[1], true
}
