package pdfw

import (
	"bytes"
	"fmt"
	"strconv"
	"strings"

	"github.com/tsawler/tabula/zzharness/sim"
)

// DocSpec is the complete, explicit description of a generated PDF: every
// physical-layout choice is a field, so that a failing case can be shrunk field
// by field towards the all-zero (simplest) layout, and so that "which feature
// does it take" can be read off the minimal spec.
type DocSpec struct {
	Seed uint64 `json:"seed"` // decides texts, numbers and low-level spelling only

	Pages     int   `json:"pages"` // 1..6 in the base revision
	Lines     int   `json:"lines"` // max lines per page (1..12)
	FontKinds []int `json:"fonts"` // font kinds available (index into FontKindNames)

	EOL       int  `json:"eol"`        // 0 LF, 1 CRLF, 2 CR
	Tight     bool `json:"tight"`      // minimal white space
	Loose     bool `json:"loose"`      // extra white space
	Comments  bool `json:"comments"`   // comments between tokens
	HexPct    int  `json:"hex_pct"`    // strings as hex
	NameEsc   bool `json:"name_esc"`   // #xx in names
	DictBreak bool `json:"dict_break"` // one dictionary entry per line

	XRef      []int `json:"xref"`     // per revision: 0 table, 1 stream (len = 1 + Revisions)
	ObjStm    int   `json:"objstm"`   // 0 none, 1 some objects, 2 everything eligible (stream revisions only)
	ObjStmN   int   `json:"objstm_n"` // containers per revision
	ObjStmZ   bool  `json:"objstm_z"` // Flate on containers
	XRefZ     int   `json:"xref_z"`   // 0 none 1 flate 2 flate+predictor
	WidePad   int   `json:"wide_pad"`
	Shuffle   bool  `json:"shuffle"`  // permute file order of objects
	Renumber  bool  `json:"renumber"` // permute object numbers
	SplitXRef bool  `json:"split_xref"`

	LenMode     int  `json:"len_mode"`     // 0 direct, 1 indirect defined before the stream, 2 indirect defined after
	LenInStm    bool `json:"len_in_stm"`   // the length object lives in an object stream
	BigStream   int  `json:"big_stream"`   // 0 small, 1 > one read-ahead (4 KiB), 2 > two read-aheads
	Filter      int  `json:"filter"`       // 0 none, 1..9 see ChooseChainN
	Predictor   int  `json:"predictor"`    // 0 none, 2, 10..15
	Split       int  `json:"split"`        // content stream pieces per page (0/1 = single)
	ContentsArr bool `json:"contents_arr"` // single stream still wrapped in an array
	ContentsRef bool `json:"contents_ref"` // /Contents array is itself an indirect object

	TreeDepth         int  `json:"tree_depth"`   // levels of /Pages nodes above the leaves (1..4)
	InheritAt         int  `json:"inherit_at"`   // 0 keys on the page itself, k = on the k-th ancestor
	InheritVary       bool `json:"inherit_vary,omitempty"` // sibling subtrees carry different boxes, rotations and font resources; some inherit from the root
	FontsInline       bool `json:"fonts_inline,omitempty"` // font dictionaries are written directly inside /Resources /Font
	PageResVary       bool `json:"page_res_vary,omitempty"` // with resources on the page itself: each page maps the same resource names to different fonts
	ResIndirect       bool `json:"res_indirect"` // /Resources, /Font dict indirect
	FontPartsIndirect bool `json:"font_parts_indirect"`
	Rotate            int  `json:"rotate"`   // 0, 90, 180, 270
	KidsRef           bool `json:"kids_ref"` // /Kids array is an indirect object

	TextOps  int  `json:"text_ops"`  // 0 Tj only, 1 TJ arrays, 2 mixed incl. Tm / T* positioning
	FormXObj bool `json:"form_xobj"` // some lines live in a Form XObject
	ForwardPrev bool `json:"forward_prev,omitempty"` // first revision laid out like a linearized file: a first xref section whose /Prev points forward
	GState   bool `json:"gstate,omitempty"` // the program relies on the graphics state: Tf only when the font changes, lines inside q ... Q change it, what follows Q counts on the restore
	Running  int  `json:"running,omitempty"` // this many header pieces and footer pieces repeated on every page
	Bulk     int  `json:"bulk,omitempty"` // this many unreferenced objects: cross-reference data longer than a read buffer
	Superscripts bool `json:"superscripts,omitempty"` // short raised pieces of text: baselines closer together than half a glyph height
	FormNest int  `json:"form_nest,omitempty"` // that form invokes this many forms of its own, one line each

	BlankPages    bool `json:"blank_pages,omitempty"` // some pages show no text at all
	Headings      bool `json:"headings,omitempty"`    // some lines are short and set much larger; body lines are indented differently
	StdWidths     bool `json:"std_widths,omitempty"` // standard Type1 fonts carry their own /Widths (content level: they change text geometry)
	ForceEmbed    bool `json:"force_embed,omitempty"`     // TrueType fonts always carry a font program
	ForceCMapForm int `json:"force_cmap_form,omitempty"` // 0 = drawn per font; 1 bfchar only, 2 bfrange, 3 bfrange with arrays

	Revisions int   `json:"revisions"` // incremental updates after the base (0..4)
	RevOps    []int `json:"rev_ops"`   // per update: 0 replace page content, 1 add page, 2 delete page, 3 replace font, 4 touch catalog
}

// Line is one shown string.
type Line struct {
	Font int
	Text string
	X, Y float64
	Size float64
}

// PageModel is what the writer expects a reader to report for one page.
type PageModel struct {
	Lines    []Line
	MediaBox [4]float64
	Rotate   int
	FontRes  []string // resource names of fonts available on the page
}

// Expected returns the non-white-space text of the page in content order.
func (p PageModel) Expected() string {
	var b strings.Builder
	for _, l := range p.Lines {
		for _, r := range l.Text {
			if r != ' ' {
				b.WriteRune(r)
			}
		}
	}
	return b.String()
}

// DocModel is the logical document after some revision.
type DocModel struct {
	Pages []PageModel
}

// GenDoc is the result of generating a document from a spec.
type GenDoc struct {
	Spec    DocSpec
	Built   *Built
	Models  []DocModel // logical document after each revision
	Commits [][]byte   // bytes appended by each revision
	PageContent [][]int // after the last revision: content stream objects of each page, in order
	Catalog     int
}

func eolOf(i int) string {
	switch i {
	case 1:
		return "\r\n"
	case 2:
		return "\r"
	}
	return "\n"
}

type pageState struct {
	serial  int // creation order (independent of numbering)
	group   int // which set of inheritable attributes applies to the page
	num     int // object number of the page dict
	content []int
	model   PageModel
	parent  int
}

type docState struct {
	spec        DocSpec
	r           *sim.Rand
	w           *Writer
	fonts       []*FontSpec
	fontNum     []int // object number of each font dict
	numMap      []int // logical -> physical object number (renumbering)
	nextLogical int
	pages       []*pageState
	nodes       map[int]Dict // page tree nodes by object number (without Kids/Count, recomputed)
	nodeKids    map[int][]int
	nodeParent  map[int]int
	rootNode    int
	catalog     int
	info        int
	resNum      int // shared resources object (0 if direct)
	fontDictNum int
	resDict     Dict
	xobjNum     int
	xobjKids    []int // forms invoked by the form (Fx2, Fx3, ...)
	formOwner   *pageState // the one page whose last line is drawn by the form XObject
	groupOfNode map[int]int // ancestor node -> attribute group (-1: none of its own, inherits from the root)
	groups      int
	curGroup    int
	fontDicts   []Dict
	pageSerial  int
	box         [4]float64
	lenObjs     map[int]int // stream object -> its length object
	kidsObjs    map[int]int
}

// alloc returns a fresh object number, going through the renumbering table.
func (d *docState) alloc() int {
	d.nextLogical++
	if d.nextLogical < len(d.numMap) {
		return d.numMap[d.nextLogical]
	}
	return d.nextLogical
}

const maxObjs = 400

// Generate builds the document described by spec.
func Generate(spec DocSpec) *GenDoc { return GenerateHooked(spec, nil, nil) }

// GenerateHooked is Generate with fault-injection hooks on the writer.
func GenerateHooked(spec DocSpec, hook func(kind string, num int, o Obj) Obj, prevHook func(rev, xrefOff, prev int) int) *GenDoc {
	return GenerateWith(spec, hook, prevHook, nil)
}

// GenerateWith additionally takes a hook on cross-reference offsets.
func GenerateWith(spec DocSpec, hook func(kind string, num int, o Obj) Obj, prevHook func(rev, xrefOff, prev int) int, offsetHook func(rev, num, off int) int) *GenDoc {
	return GenerateHooks(spec, Hooks{Obj: hook, Prev: prevHook, Offset: offsetHook})
}

// Hooks are the writer's fault-injection seams.
type Hooks struct {
	Obj    func(kind string, num int, o Obj) Obj
	Prev   func(rev, xrefOff, prev int) int
	Offset func(rev, num, off int) int
	Entry  func(rev, num, typ, a, b int) (int, int, int)
	PrevReal bool // /Prev written as a real number
}

// GenerateHooks builds the document with any of the hooks set.
func GenerateHooks(spec DocSpec, h Hooks) *GenDoc {
	hook, prevHook, offsetHook := h.Obj, h.Prev, h.Offset
	r := sim.NewRand(spec.Seed)
	st := Style{EOL: eolOf(spec.EOL), Tight: spec.Tight, Loose: spec.Loose, Comments: spec.Comments, HexPct: spec.HexPct,
		NameEsc: spec.NameEsc, DictBreak: spec.DictBreak, OctalPct: 50}
	d := &docState{spec: spec, r: r, nodes: map[int]Dict{}, nodeKids: map[int][]int{}, nodeParent: map[int]int{},
		lenObjs: map[int]int{}, kidsObjs: map[int]int{}}
	// renumbering table: logical i -> physical number
	d.numMap = make([]int, maxObjs)
	for i := range d.numMap {
		d.numMap[i] = i
	}
	if spec.Renumber {
		p := r.Split("renumber").Perm(maxObjs - 1)
		for i := 1; i < maxObjs; i++ {
			d.numMap[i] = p[i-1] + 1
		}
	}
	d.box = [4]float64{0, 0, 612, 792}
	if r.Split("box").Pct(30) {
		d.box = [4]float64{0, 0, 595.28, 841.89}
	}
	d.catalog = d.alloc()
	d.info = d.alloc()
	infoRef := Ref{d.info, 0}
	d.w = NewWriter(st, r.Split("writer"), Ref{d.catalog, 0}, &infoRef, maxObjs)
	d.w.Hook = hook
	d.w.PrevHook = prevHook
	d.w.OffsetHook = offsetHook
	d.w.EntryHook = h.Entry
	d.w.PrevReal = h.PrevReal

	out := &GenDoc{Spec: spec}
	set := map[int]Obj{}
	d.buildBase(set)
	out.Commits = append(out.Commits, d.commit(set, 0))
	out.Models = append(out.Models, d.snapshot())
	for rev := 1; rev <= spec.Revisions; rev++ {
		set = map[int]Obj{}
		var free []int
		op := 0
		if rev-1 < len(spec.RevOps) {
			op = spec.RevOps[rev-1]
		}
		free = d.applyRevOp(op, set, rev)
		out.Commits = append(out.Commits, d.commitFree(set, free, rev))
		out.Models = append(out.Models, d.snapshot())
	}
	out.Built = d.w.Built()
	for _, p := range d.pages {
		out.PageContent = append(out.PageContent, append([]int{}, p.content...))
	}
	out.Catalog = d.catalog
	return out
}

func (d *docState) snapshot() DocModel {
	var m DocModel
	for _, p := range d.pages {
		pm := p.model
		pm.Lines = append([]Line{}, pm.Lines...)
		m.Pages = append(m.Pages, pm)
	}
	return m
}

func (d *docState) commit(set map[int]Obj, rev int) []byte { return d.commitFree(set, nil, rev) }

func (d *docState) commitFree(set map[int]Obj, free []int, rev int) []byte {
	sp := d.spec
	rs := RevSpec{Set: set, Free: free, ObjStms: sim.MaxInt(1, sp.ObjStmN), ObjStmFlate: sp.ObjStmZ, XRefFlate: sp.XRefZ,
		WidePad: sp.WidePad, SplitXRef: sp.SplitXRef, ForwardPrev: sp.ForwardPrev && rev == 0}
	if rev < len(sp.XRef) {
		rs.XRefStream = sp.XRef[rev] == 1
	}
	if sp.Shuffle {
		rs.Shuffle = d.r.Split("shuffle"+strconv.Itoa(rev)).Uint64() | 1
	}
	if sp.ObjStm > 0 {
		rs.InObjStm = map[int]bool{}
		pr := d.r.Split("objstm" + strconv.Itoa(rev))
		for _, num := range SortedNums(set) {
			isLen := false
			for _, ln := range d.lenObjs {
				if ln == num {
					isLen = true
				}
			}
			if isLen {
				rs.InObjStm[num] = sp.LenInStm
				continue
			}
			if sp.ObjStm == 2 || pr.Bool() {
				rs.InObjStm[num] = true
			}
		}
	}
	return d.w.Commit(rs)
}

func (d *docState) ref(num int) Ref { return Ref{num, d.w.Gen(num)} }

// ---------------------------------------------------------------------------
// base document
// ---------------------------------------------------------------------------

func (d *docState) buildBase(set map[int]Obj) {
	sp := d.spec
	r := d.r
	// fonts
	kinds := sp.FontKinds
	if len(kinds) == 0 {
		kinds = []int{FontStdWinAnsi}
	}
	fontDict := Dict{}
	for i, k := range kinds {
		f := NewFont(k, "F"+strconv.Itoa(i+1), r.Split("font"+strconv.Itoa(i)))
		if sp.ForceCMapForm > 0 {
			f.CMapForm = sp.ForceCMapForm - 1
		}
		if sp.StdWidths {
			f.Widths = 200 + int(sp.Seed%9)*150
		}
		if sp.ForceEmbed && k == FontTrueTypeWin {
			f.Embed = true
		}
		d.fonts = append(d.fonts, f)
		num := d.alloc()
		fd, aux := f.Objects(d.alloc, d.w.Gen, sp.FontPartsIndirect, r.Split("fontobj"+strconv.Itoa(i)))
		set[num] = fd
		for n, o := range aux {
			set[n] = o
		}
		d.fontNum = append(d.fontNum, num)
		d.fontDicts = append(d.fontDicts, fd)
		if sp.FontsInline {
			fontDict = append(fontDict, KV{f.ResName, fd})
		} else {
			fontDict = append(fontDict, KV{f.ResName, d.ref(num)})
		}
	}
	d.resDict = Dict{}
	if sp.ResIndirect {
		d.fontDictNum = d.alloc()
		set[d.fontDictNum] = fontDict
		d.resDict = append(d.resDict, KV{"Font", d.ref(d.fontDictNum)})
	} else {
		d.resDict = append(d.resDict, KV{"Font", fontDict})
	}
	d.resDict = append(d.resDict, KV{"ProcSet", Arr{Name("PDF"), Name("Text")}})

	// page tree skeleton: TreeDepth levels of nodes
	depth := sp.TreeDepth
	if depth < 1 {
		depth = 1
	}
	d.rootNode = d.alloc()
	d.nodeParent[d.rootNode] = 0
	nPages := sp.Pages
	if nPages < 1 {
		nPages = 1
	}
	// pages must be numbered in document order = depth-first order of the tree, so hand them out in order
	if sp.FormXObj {
		d.xobjNum = d.alloc()
		xd := Dict{{"Fx1", d.ref(d.xobjNum)}}
		for k := 0; k < sp.FormNest; k++ {
			n := d.alloc()
			d.xobjKids = append(d.xobjKids, n)
			xd = append(xd, KV{"Fx" + strconv.Itoa(k+2), d.ref(n)})
		}
		d.resDict = append(d.resDict, KV{"XObject", xd})
	}
	if sp.ResIndirect {
		d.resNum = d.alloc()
	}
	// The tree is ragged: a /Kids array may mix page leaves and Pages nodes in any
	// order, and sibling subtrees may differ in depth. Pages are created in document
	// order (depth first, left to right). One chain reaches the full depth.
	var place func(node, level, n int, deep bool)
	place = func(node, level, n int, deep bool) {
		made := false
		for n > 0 {
			take := 1 + r.Intn(n)
			sub := level < depth-1 && r.Pct(55)
			if level < depth-1 && deep && !made && take == n {
				sub = true
			}
			if sub {
				c := d.alloc()
				d.nodeParent[c] = node
				d.nodeKids[node] = append(d.nodeKids[node], c)
				place(c, level+1, take, deep && !made)
				made = true
			} else {
				if take > 3 {
					take = 1 + r.Intn(3)
				}
				for k := 0; k < take; k++ {
					p := &pageState{num: d.alloc(), parent: node, serial: d.nextSerial()}
					d.nodeKids[node] = append(d.nodeKids[node], -p.num) // negative marks a page leaf
					d.pages = append(d.pages, p)
				}
			}
			n -= take
		}
	}
	place(d.rootNode, 0, nPages, true)
	// drop empty intermediate nodes (a /Pages node without kids is not well formed)
	d.pruneEmptyNodes()
	// order pages depth-first
	d.pages = d.pagesInTreeOrder()

	for i, p := range d.pages {
		d.fillPage(p, i, set)
	}
	if sp.FormXObj && d.xobjNum != 0 {
		// defined by fillPage of the first page that used it; if nobody did, define an empty form
		if _, ok := set[d.xobjNum]; !ok {
			set[d.xobjNum] = &Stream{Dict: Dict{{"Type", Name("XObject")}, {"Subtype", Name("Form")}, {"BBox", Arr{0, 0, 612, 792}}}, Plain: []byte("q Q\n")}
		}
		for _, n := range d.xobjKids {
			if _, ok := set[n]; !ok {
				set[n] = &Stream{Dict: Dict{{"Type", Name("XObject")}, {"Subtype", Name("Form")}, {"BBox", Arr{0, 0, 612, 792}}}, Plain: []byte("q Q\n")}
			}
		}
	}
	if d.resNum != 0 {
		set[d.resNum] = d.resDict
	}
	for i := 0; i < sp.Bulk; i++ {
		set[d.w.NextNum()] = 1000 + i
	}
	d.emitTree(set)
	set[d.catalog] = Dict{{"Type", Name("Catalog")}, {"Pages", d.ref(d.rootNode)}}
	set[d.info] = Dict{{"Producer", Str{B: []byte("pdfw independent writer")}}, {"Title", Str{B: []byte("T" + strconv.Itoa(int(sp.Seed%1000)))}}}
}

func (d *docState) pruneEmptyNodes() {
	changed := true
	for changed {
		changed = false
		for _, n := range SortedNums(d.nodeParent) {
			if n == d.rootNode {
				continue
			}
			if len(d.nodeKids[n]) == 0 {
				par := d.nodeParent[n]
				var ks []int
				for _, k := range d.nodeKids[par] {
					if k != n {
						ks = append(ks, k)
					}
				}
				d.nodeKids[par] = ks
				delete(d.nodeParent, n)
				delete(d.nodeKids, n)
				changed = true
			}
		}
	}
}

func (d *docState) pagesInTreeOrder() []*pageState {
	byNum := map[int]*pageState{}
	for _, p := range d.pages {
		byNum[p.num] = p
	}
	var out []*pageState
	var walk func(n int)
	walk = func(n int) {
		for _, k := range d.nodeKids[n] {
			if k < 0 {
				out = append(out, byNum[-k])
			} else {
				walk(k)
			}
		}
	}
	walk(d.rootNode)
	return out
}

func (d *docState) countLeaves(n int) int {
	c := 0
	for _, k := range d.nodeKids[n] {
		if k < 0 {
			c++
		} else {
			c += d.countLeaves(k)
		}
	}
	return c
}

// ancestor returns the k-th ancestor node of a page (1 = parent), clamped at the root.
func (d *docState) ancestor(p *pageState, k int) int {
	n := p.parent
	for i := 1; i < k; i++ {
		if par := d.nodeParent[n]; par != 0 {
			n = par
		}
	}
	return n
}

func (d *docState) nextSerial() int { d.pageSerial++; return d.pageSerial }

// groupFor decides which set of inheritable attributes a page sees.
func (d *docState) groupFor(p *pageState) int {
	sp := d.spec
	if sp.PageResVary && sp.InheritAt == 0 && len(d.fonts) > 1 {
		// resources on the page itself: rotate the name -> font mapping from page to page
		return 1 + p.serial%len(d.fonts)
	}
	if !sp.InheritVary || sp.InheritAt == 0 {
		return 0
	}
	// every node that is the InheritAt-th ancestor of some page may carry a set of
	// its own; a page sees the nearest such set above it (the tree is ragged, so that
	// need not be the page's own InheritAt-th ancestor)
	d.decideGroups()
	for n := p.parent; n != 0 && n != d.rootNode; n = d.nodeParent[n] {
		if g := d.groupOfNode[n]; g > 0 {
			return g
		}
	}
	return 0
}

// decideGroups fixes, for every candidate node not decided yet, whether it carries
// inheritable attributes of its own.
func (d *docState) decideGroups() {
	if d.groupOfNode == nil {
		d.groupOfNode = map[int]int{}
	}
	for _, q := range d.pages {
		a := d.ancestor(q, d.spec.InheritAt)
		if a == d.rootNode {
			continue
		}
		if _, ok := d.groupOfNode[a]; ok {
			continue
		}
		g := -1
		if d.r.Split("group" + strconv.Itoa(len(d.groupOfNode))).Bool() {
			d.groups++
			g = d.groups
		}
		d.groupOfNode[a] = g
	}
}

func (d *docState) groupBox(g int) [4]float64 {
	b := d.box
	if d.spec.InheritAt == 0 {
		return b // page-level groups only differ in their font resources
	}
	b[2] += float64(7 * g)
	b[3] += float64(11 * g)
	return b
}

func (d *docState) groupRotate(g int) int {
	if d.spec.InheritAt == 0 {
		return d.spec.Rotate
	}
	return (d.spec.Rotate + 90*g) % 360
}

// resName: the resource name under which font i is known in the current group
// (sibling subtrees map the same names to different fonts).
func (d *docState) resName(i int) string {
	n := len(d.fonts)
	return "F" + strconv.Itoa((i+d.curGroup)%n+1)
}

// groupResources builds the resource dictionary of a group > 0 (always direct).
func (d *docState) groupResources(g int) Dict {
	save := d.curGroup
	d.curGroup = g
	fd := Dict{}
	for i := range d.fonts {
		if d.spec.FontsInline {
			fd = append(fd, KV{d.resName(i), d.fontDicts[i]})
		} else {
			fd = append(fd, KV{d.resName(i), d.ref(d.fontNum[i])})
		}
	}
	d.curGroup = save
	res := Dict{{"Font", fd}, {"ProcSet", Arr{Name("PDF"), Name("Text")}}}
	if x := d.resDict.Get("XObject"); x != nil {
		res = append(res, KV{"XObject", x})
	}
	return res
}

// emitTree (re)writes all page tree nodes into set.
func (d *docState) emitTree(set map[int]Obj) {
	sp := d.spec
	inherit := map[int]Dict{}
	if sp.InheritAt > 0 {
		for _, p := range d.pages {
			a := d.ancestor(p, sp.InheritAt)
			var res Obj = d.resDict
			if d.resNum != 0 {
				res = d.ref(d.resNum)
			}
			base := Dict{{"MediaBox", boxArr(d.groupBox(0))}, {"Resources", res}}
			if d.groupRotate(0) != 0 {
				base = append(base, KV{"Rotate", d.groupRotate(0)})
			}
			if sp.InheritVary {
				// the root always carries the default attributes; an ancestor with a group of
				// its own overrides them, one without inherits them
				inherit[d.rootNode] = base
				for _, n := range SortedNums(d.groupOfNode) {
					if g := d.groupOfNode[n]; g > 0 && n != d.rootNode {
						if _, live := d.nodeParent[n]; !live {
							continue
						}
						own := Dict{{"MediaBox", boxArr(d.groupBox(g))}, {"Resources", d.groupResources(g)}}
						// Rotate 0 must be spelled out where the root says something else
						own = append(own, KV{"Rotate", d.groupRotate(g)})
						inherit[n] = own
					}
				}
				_ = a
				continue
			}
			if _, ok := inherit[a]; !ok {
				inherit[a] = base
			}
		}
	}
	for _, n := range SortedNums(d.nodeParent) {
		var kids Arr
		for _, k := range d.nodeKids[n] {
			if k < 0 {
				kids = append(kids, d.ref(-k))
			} else {
				kids = append(kids, d.ref(k))
			}
		}
		node := Dict{{"Type", Name("Pages")}}
		if sp.KidsRef {
			kn, ok := d.kidsObjs[n]
			if !ok {
				kn = d.alloc()
				d.kidsObjs[n] = kn
			}
			set[kn] = kids
			node = append(node, KV{"Kids", d.ref(kn)})
		} else {
			node = append(node, KV{"Kids", kids})
		}
		node = append(node, KV{"Count", d.countLeaves(n)})
		if par := d.nodeParent[n]; par != 0 {
			node = append(node, KV{"Parent", d.ref(par)})
		}
		node = append(node, inherit[n]...)
		set[n] = node
	}
}

func boxArr(b [4]float64) Arr {
	var a Arr
	for _, v := range b {
		if v == float64(int(v)) {
			a = append(a, int(v))
		} else {
			a = append(a, Real(v))
		}
	}
	return a
}

// ---------------------------------------------------------------------------
// pages and content
// ---------------------------------------------------------------------------

var words = []string{"alpha", "bravo", "charlie", "delta", "echo", "foxtrot", "golf", "hotel", "india", "juliet",
	"kilo", "lima", "mike", "november", "oscar", "papa", "quebec", "romeo", "sierra", "tango"}

// lineText draws a text the font can encode; every line of a document is unique
// (it carries a serial) so that each fragment is attributable.
func (d *docState) lineText(f *FontSpec, serial int, r *sim.Rand) string {
	var b strings.Builder
	if f.Kind == FontType0Identity || f.Kind == FontSimpleToUni {
		n := 3 + r.Intn(10)
		for i := 0; i < n; i++ {
			b.WriteRune(sim.Pick(r, f.Alphabet))
		}
		// serial spelled with the letters a..p (base 16)
		for _, c := range fmt.Sprintf("%x", serial+0x100) {
			if c >= '0' && c <= '9' {
				b.WriteRune('a' + (c - '0'))
			} else {
				b.WriteRune('k' + (c - 'a'))
			}
		}
		return b.String()
	}
	n := 1 + r.Intn(6)
	if r.Pct(20) {
		n += 6 // a long line: strings of 60-100 bytes
	}
	for i := 0; i < n; i++ {
		if i > 0 {
			b.WriteByte(' ')
		}
		b.WriteString(sim.Pick(r, words))
		if r.Pct(25) {
			b.WriteRune(sim.Pick(r, f.Alphabet))
		}
	}
	fmt.Fprintf(&b, " #%d", serial)
	if r.Pct(20) {
		b.WriteString(" (p) \\ ")
		b.WriteString(sim.Pick(r, words))
	}
	return b.String()
}

func (d *docState) makeLines(pageIdx int, r *sim.Rand) (out []Line) {
	sp := d.spec
	maxLines := sp.Lines
	if maxLines < 1 {
		maxLines = 1
	}
	n := 1 + r.Intn(maxLines)
	var lines []Line
	y := 720.0
	size := float64(sim.Pick(r, []int{10, 11, 12}))
	if sp.BlankPages && pageIdx%100 != 1 && r.Pct(35) {
		return nil // a page that shows no text (never the second page, so some text remains)
	}
	if sp.Running > 0 && d.fonts[0].HasSpace() {
		// running heads: the same short pieces at the same places on every page
		for j := 0; j < sp.Running; j++ {
			// (one below the other: side by side they would overlap under wide document metrics,
			// and a reader may legitimately merge glyphs printed on top of each other)
			lines = append(lines, Line{Font: 0, Text: "Head " + words[(j*7+int(sp.Seed%11))%len(words)], X: 60, Y: 784 - float64(j)*11, Size: 9})
		}
	}
	defer func() {
		if sp.Running > 0 && d.fonts[0].HasSpace() && out != nil {
			for j := 0; j < sp.Running; j++ {
				out = append(out, Line{Font: 0, Text: "Foot " + words[(j*5+int(sp.Seed%13))%len(words)], X: 60, Y: 62 - float64(j)*11, Size: 9})
			}
		}
	}()
	for i := 0; i < n; i++ {
		fi := r.Intn(len(d.fonts))
		serial := pageIdx*100 + i + 1 + 1000*d.w.revs
		ln := Line{Font: fi, Text: d.lineText(d.fonts[fi], serial, r), X: 72, Y: y, Size: size}
		if sp.Headings && r.Pct(25) {
			// a short line set in a much larger size, anywhere on the page, and body lines that
			// are indented differently
			ln.Size = float64(sim.Pick(r, []int{18, 20, 24}))
			if f := d.fonts[fi]; f.HasSpace() {
				ln.Text = "Section " + strconv.Itoa(serial)
				if r.Pct(40) {
					ln.Text += ", part two" // punctuation that export formats use as a delimiter
				}
			}
		} else if sp.Headings && r.Pct(30) {
			ln.X = float64(sim.Pick(r, []int{90, 108, 144}))
		}
		lines = append(lines, ln)
		if sp.Superscripts && ln.Size <= 12 && r.Pct(35) {
			// a raised mark in the left margin (a footnote mark, a note number; never over the line's
			// own glyphs, whatever the metrics): a baseline
			// of its own, a third of the type size above the line's
			mark := strconv.Itoa(2 + r.Intn(8))
			if !d.fonts[fi].HasSpace() {
				mark = string(sim.Pick(r, d.fonts[fi].Alphabet)) // fonts with an alphabet of their own
			}
			lines = append(lines, Line{Font: fi, Text: mark, X: 44, Y: y + ln.Size*0.35, Size: ln.Size * 0.6})
		}
		y -= ln.Size * 1.5
	}
	out = lines
	return out
}

// contentFor renders lines as a content stream program.
func (d *docState) contentFor(lines []Line, r *sim.Rand) []byte {
	sp := d.spec
	var b bytes.Buffer
	nl := "\n"
	// Spelling choices (how a number or string is written) draw from their own
	// stream, so that the page's content - which operators, which pieces, which
	// kerning - is the same for every storage layout of the same logical document.
	rs := r.Split("spelling")
	num := func(f float64) string {
		if f == float64(int(f)) && rs.Bool() {
			return strconv.Itoa(int(f))
		}
		return fmtReal(f)
	}
	str := func(f *FontSpec, s string) []byte {
		st := Style{HexPct: sp.HexPct, OctalPct: 50}
		if f.Kind == FontType0Identity {
			st.HexPct = sim.MaxInt(st.HexPct, 60)
		}
		return Serialise(Str{B: f.Encode(s)}, st, rs)
	}
	wrapQ := r.Pct(30)
	if wrapQ {
		b.WriteString("q" + nl)
	}
	// the text font as the graphics state has it (font index, size); nothing is known at
	// the start of a program, q saves it and Q brings it back
	gsCur := [2]float64{-1, 0}
	var gsStack [][2]float64
	opened := false
	for i, l := range lines {
		f := d.fonts[l.Font]
		mode := 0
		if sp.TextOps == 1 {
			mode = 1
		} else if sp.TextOps >= 2 {
			mode = r.Intn(4)
		}
		marked := sp.TextOps >= 2 && r.Pct(40)
		if marked {
			// marked content with an inline property list (a dictionary operand)
			fmt.Fprintf(&b, "/Span << /MCID %d /Lang (en) >> BDC%s", i, nl)
		}
		lineQ := sp.GState && r.Pct(35)
		if lineQ {
			b.WriteString("q" + nl)
			gsStack = append(gsStack, gsCur)
		}
		if !opened {
			b.WriteString("BT" + nl)
			opened = true
		}
		if want := [2]float64{float64(l.Font), l.Size}; !sp.GState || want != gsCur {
			fmt.Fprintf(&b, "/%s %s Tf%s", d.resName(l.Font), num(l.Size), nl)
			gsCur = want
		}
		switch {
		case mode == 2:
			fmt.Fprintf(&b, "1 0 0 1 %s %s Tm%s", num(l.X), num(l.Y), nl)
		default:
			// Td is relative to the start of the current line; we restart the text
			// object for every line so that absolute coordinates can be used
			fmt.Fprintf(&b, "%s %s Td%s", num(l.X), num(l.Y), nl)
		}
		switch mode {
		case 1, 3:
			// TJ: split into pieces with small kerning adjustments
			runes := []rune(l.Text)
			b.WriteByte('[')
			for pos := 0; pos < len(runes); {
				n := 1 + r.Intn(6)
				if pos+n > len(runes) {
					n = len(runes) - pos
				}
				b.Write(str(f, string(runes[pos:pos+n])))
				pos += n
				if pos < len(runes) {
					if r.Bool() {
						fmt.Fprintf(&b, "%d", -20+r.Intn(40))
					} else {
						fmt.Fprintf(&b, " %s ", fmtReal(float64(-20+r.Intn(40))/2))
					}
				}
			}
			b.WriteString("] TJ" + nl)
		default:
			b.Write(str(f, l.Text))
			b.WriteString(" Tj" + nl)
		}
		b.WriteString("ET" + nl)
		opened = false
		if lineQ {
			b.WriteString("Q" + nl)
			gsCur = gsStack[len(gsStack)-1]
			gsStack = gsStack[:len(gsStack)-1]
		}
		if marked {
			b.WriteString("EMC" + nl)
		}
	}
	if wrapQ {
		b.WriteString("Q" + nl)
	}
	return b.Bytes()
}

func (d *docState) fillPage(p *pageState, idx int, set map[int]Obj) {
	// keyed by the page's position, not by its object number: renumbering is storage
	r := d.r.Split("page" + strconv.Itoa(idx) + "r" + strconv.Itoa(d.w.revs))
	// one page size per document (so that it can be inherited from any ancestor, and so
	// that the same logical document has the same geometry in every storage layout)
	p.group = d.groupFor(p)
	p.model = PageModel{MediaBox: d.groupBox(p.group), Rotate: d.groupRotate(p.group)}
	for _, f := range d.fonts {
		p.model.FontRes = append(p.model.FontRes, f.ResName)
	}
	lines := d.makeLines(idx, r)
	p.model.Lines = lines
	d.writePageObjects(p, lines, set, r)
}

// writePageObjects emits the page dictionary and its content streams.
func (d *docState) writePageObjects(p *pageState, lines []Line, set map[int]Obj, r *sim.Rand) {
	sp := d.spec
	d.curGroup = p.group
	defer func() { d.curGroup = 0 }()
	mainLines := lines
	var formLines []Line
	if d.formOwner == nil && d.w.revs == 0 && sp.FormXObj && d.xobjNum != 0 && len(lines) >= 2 {
		d.formOwner = p
	}
	useForm := p == d.formOwner && len(lines) >= 2
	prog := d.contentFor(mainLines, r)
	if useForm {
		// the last line is drawn by a form XObject invoked at the end; with nesting the
		// form draws one line and then invokes forms of its own that draw one line each
		nest := 0
		if d.w.revs == 0 {
			for nest < len(d.xobjKids) && len(lines) >= 3+nest {
				nest++
			}
		}
		formLines = lines[len(lines)-1-nest : len(lines)-nest]
		mainLines = lines[:len(lines)-1-nest]
		prog = d.contentFor(mainLines, r)
		prog = append(prog, []byte("q /Fx1 Do Q\n")...)
		// a form may map the font names differently from the page that invokes it (/F1 of
		// the form is another font than /F1 of the page): its own resources win inside it,
		// and nothing of that may stick to the page afterwards
		shift := 0
		if len(d.fonts) > 1 && r.Split("formshift").Bool() {
			shift = 1
		}
		pageGroup := d.curGroup
		d.curGroup = p.group + shift
		fp := d.contentFor(formLines, r)
		fontRes := d.resDict.Get("Font")
		if p.group+shift > 0 {
			fontRes = d.groupResources(p.group + shift).Get("Font")
		}
		// content decisions first, storage decisions (resources of their own, filter
		// geometry) afterwards: the latter draw differently from layout to layout
		var kidsDict Dict
		var kidProgs [][]byte
		for k := 0; k < nest; k++ {
			fp = append(fp, []byte("q /Fx"+strconv.Itoa(k+2)+" Do Q\n")...)
			kidProgs = append(kidProgs, d.contentFor(lines[len(lines)-nest+k:len(lines)-nest+k+1], r))
		}
		d.curGroup = pageGroup
		for k, kp := range kidProgs {
			name := "Fx" + strconv.Itoa(k+2)
			ks := &Stream{Dict: Dict{{"Type", Name("XObject")}, {"Subtype", Name("Form")}, {"BBox", Arr{0, 0, 612, 792}}}, Plain: kp}
			if r.Bool() {
				ks.Dict = append(ks.Dict, KV{"Resources", Dict{{"Font", fontRes}}})
			}
			ks.Filters = d.chain(len(kp), r)
			set[d.xobjKids[k]] = ks
			kidsDict = append(kidsDict, KV{name, d.ref(d.xobjKids[k])})
		}
		fs := &Stream{Dict: Dict{{"Type", Name("XObject")}, {"Subtype", Name("Form")}, {"BBox", Arr{0, 0, 612, 792}}}, Plain: fp}
		if r.Bool() || shift > 0 {
			// a form may carry its own resources; without them it uses the page's
			own := Dict{{"Font", fontRes}}
			if nest > 0 {
				own = append(own, KV{"XObject", kidsDict})
			}
			fs.Dict = append(fs.Dict, KV{"Resources", own})
		}
		fs.Filters = d.chain(len(fp), r)
		set[d.xobjNum] = fs
	}
	// big streams: pad with comments/harmless operators up to the requested size
	switch sp.BigStream {
	case 1:
		prog = padProgram(prog, 4200+r.Intn(1500), r)
	case 2:
		prog = padProgram(prog, 8300+r.Intn(3000), r)
	case 3:
		// more than a megabyte of very regular drawing in front of the text (rules of a form,
		// a hatched background): compresses several hundred times, and what a reader does not
		// decode to the end loses the text
		n := (1100000 + r.Intn(900000)) / 16
		if p != d.pages[0] && len(d.pages) > 0 {
			n = 40 // one such page per document is enough
		}
		prog = append([]byte(strings.Repeat("0 0 m 10 10 l S\n", n)), prog...)
	}
	pieces := splitProgram(prog, sp.Split, r)
	p.content = p.content[:0]
	var refs Arr
	for _, piece := range pieces {
		num := d.alloc()
		s := &Stream{Plain: piece}
		s.Filters = d.chain(len(piece), r)
		if sp.LenMode > 0 {
			ln := d.alloc()
			s.LenIndirect = true
			s.LenRef = Ref{ln, 0}
			d.lenObjs[num] = ln
			plain := s.Plain
			if d.w.Hook != nil {
				if hp, ok := d.w.Hook("plain", num, Str{B: plain}).(Str); ok {
					plain = hp.B
				}
			}
			s.Raw = Encode(plain, s.Filters, r)
			set[ln] = len(s.Raw)
		}
		set[num] = s
		p.content = append(p.content, num)
		refs = append(refs, d.ref(num))
	}
	page := Dict{{"Type", Name("Page")}, {"Parent", d.ref(p.parent)}}
	if sp.InheritAt == 0 {
		page = append(page, KV{"MediaBox", boxArr(p.model.MediaBox)})
		if p.group > 0 {
			page = append(page, KV{"Resources", d.groupResources(p.group)})
		} else if d.resNum != 0 {
			page = append(page, KV{"Resources", d.ref(d.resNum)})
		} else {
			page = append(page, KV{"Resources", d.resDict})
		}
		if sp.Rotate != 0 {
			page = append(page, KV{"Rotate", sp.Rotate})
		}
	}
	var contents Obj
	if len(refs) == 1 && !sp.ContentsArr {
		contents = refs[0]
	} else if sp.ContentsRef {
		cn := d.alloc()
		set[cn] = refs
		contents = d.ref(cn)
	} else {
		contents = refs
	}
	page = append(page, KV{"Contents", contents})
	set[p.num] = page
}

func (d *docState) chain(n int, r *sim.Rand) []FilterSpec {
	sp := d.spec
	switch sp.Filter {
	case 0:
		return nil
	case 1:
		f := FilterSpec{Name: "FlateDecode", Columns: 1, Colors: 1}
		if sp.Predictor >= 2 && n > 0 {
			if cols, colors, ok := chooseGeometry(r, n); ok {
				f.Predictor, f.Columns, f.Colors = sp.Predictor, cols, colors
			}
		}
		return []FilterSpec{f}
	case 2:
		return []FilterSpec{{Name: "ASCIIHexDecode"}}
	case 3:
		return []FilterSpec{{Name: "ASCII85Decode"}}
	case 4, 5, 6:
		// chains: the parameters of the Flate stage sit in a /DecodeParms array whose other
		// entries are null
		f := FilterSpec{Name: "FlateDecode", Columns: 1, Colors: 1}
		if sp.Predictor >= 2 && n > 0 {
			if cols, colors, ok := chooseGeometry(r, n); ok {
				f.Predictor, f.Columns, f.Colors = sp.Predictor, cols, colors
			}
		}
		switch sp.Filter {
		case 4:
			return []FilterSpec{{Name: "ASCII85Decode"}, f}
		case 5:
			return []FilterSpec{{Name: "ASCIIHexDecode"}, f}
		}
		return []FilterSpec{{Name: "ASCIIHexDecode"}, {Name: "ASCII85Decode"}, f}
	case 7:
		return []FilterSpec{{Name: "FlateDecode", Columns: 1, Colors: 1, ParmsMode: 1}}
	case 8:
		return []FilterSpec{{Name: "FlateDecode", Columns: 1, Colors: 1, ParmsMode: 2}}
	default:
		return []FilterSpec{{Name: "FlateDecode", Columns: 1, Colors: 1}, {Name: "FlateDecode", Columns: 1, Colors: 1}}
	}
}

// padProgram appends harmless graphics operators until the program is at least n bytes.
func padProgram(prog []byte, n int, r *sim.Rand) []byte {
	var b bytes.Buffer
	// half of the padding before, half after the text
	pad := func(target int) []byte {
		var p bytes.Buffer
		for p.Len() < target {
			switch r.Intn(4) {
			case 0:
				fmt.Fprintf(&p, "%d %d m %d %d l S\n", r.Intn(600), r.Intn(800), r.Intn(600), r.Intn(800))
			case 1:
				fmt.Fprintf(&p, "%s %s %s rg\n", fmtReal(r.Float()), fmtReal(r.Float()), fmtReal(r.Float()))
			case 2:
				fmt.Fprintf(&p, "q %d w Q\n", 1+r.Intn(5))
			default:
				fmt.Fprintf(&p, "%d %d %d %d re f\n", r.Intn(600), r.Intn(800), r.Intn(50), r.Intn(50))
			}
		}
		return p.Bytes()
	}
	need := n - len(prog)
	if need <= 0 {
		return prog
	}
	b.Write(pad(need / 2))
	b.Write(prog)
	b.Write(pad(need - need/2))
	return b.Bytes()
}

// splitProgram cuts a content program into k pieces at white space (the white
// space stays at the end of the earlier piece, so plain concatenation restores
// the program). ISO 32000-1 7.8.2 allows a split between any two lexical tokens,
// so cuts also fall between an operand and its operator and inside arrays.
func splitProgram(prog []byte, k int, r *sim.Rand) [][]byte {
	if k <= 1 {
		return [][]byte{prog}
	}
	// candidate cut points: after white space outside strings (literal and hex)
	// and outside comments
	var lineCuts, tokenCuts []int
	depth := 0
	inHex, inComment := false, false
	for i := 0; i < len(prog); i++ {
		c := prog[i]
		if inComment {
			if c == '\n' || c == '\r' {
				inComment = false
			} else {
				continue
			}
		}
		switch {
		case depth > 0 && c == '\\':
			i++
		case c == '(' && !inHex:
			depth++
		case c == ')' && !inHex:
			if depth > 0 {
				depth--
			}
		case depth > 0:
		case c == '<':
			if i+1 < len(prog) && prog[i+1] == '<' {
				i++
			} else {
				inHex = true
			}
		case c == '>':
			if inHex {
				inHex = false
			} else if i+1 < len(prog) && prog[i+1] == '>' {
				i++
			}
		case c == '%' && !inHex:
			inComment = true
		case (c == '\n' || c == ' ') && !inHex && i+1 < len(prog):
			if c == '\n' {
				lineCuts = append(lineCuts, i+1)
			}
			if prog[i+1] != ' ' && prog[i+1] != '\n' && prog[i+1] != '\r' {
				tokenCuts = append(tokenCuts, i+1)
			}
		}
	}
	cuts := tokenCuts
	if len(lineCuts) > 0 && r.Pct(30) {
		cuts = lineCuts
	}
	if len(cuts) == 0 {
		return [][]byte{prog}
	}
	chosen := map[int]bool{}
	for i := 0; i < k-1; i++ {
		chosen[sim.Pick(r, cuts)] = true
	}
	var out [][]byte
	last := 0
	for _, c := range cuts {
		if chosen[c] {
			out = append(out, prog[last:c])
			last = c
		}
	}
	out = append(out, prog[last:])
	return out
}

// ---------------------------------------------------------------------------
// incremental updates
// ---------------------------------------------------------------------------

// applyRevOp mutates the logical document and records the objects to write.
func (d *docState) applyRevOp(op int, set map[int]Obj, rev int) (free []int) {
	r := d.r.Split("rev" + strconv.Itoa(rev))
	switch op {
	case 1: // add a page at a random position of the page sequence
		// The position is chosen in the logical page order, so that the same
		// logical document results whatever the shape of the page tree.
		at := r.Intn(len(d.pages) + 1)
		node, pos := d.rootNode, len(d.nodeKids[d.rootNode])
		if len(d.pages) > 0 {
			nb, after := d.pages[len(d.pages)-1], true
			if at < len(d.pages) {
				nb, after = d.pages[at], false
			}
			node = nb.parent
			for i, k := range d.nodeKids[node] {
				if k == -nb.num {
					pos = i
					if after {
						pos = i + 1
					}
				}
			}
		}
		p := &pageState{num: d.alloc(), parent: node, serial: d.nextSerial()}
		kids := d.nodeKids[node]
		kids = append(kids[:pos:pos], append([]int{-p.num}, kids[pos:]...)...)
		d.nodeKids[node] = kids
		d.pages = append(d.pages, p)
		d.pages = d.pagesInTreeOrder()
		idx := 0
		for i, q := range d.pages {
			if q == p {
				idx = i
			}
		}
		d.fillPage(p, idx+50*rev, set)
		d.emitTree(set)
	case 2: // delete a page (never the last one)
		if len(d.pages) <= 1 {
			return d.applyRevOp(0, set, rev)
		}
		victim := d.pages[r.Intn(len(d.pages))]
		var ks []int
		for _, k := range d.nodeKids[victim.parent] {
			if k != -victim.num {
				ks = append(ks, k)
			}
		}
		d.nodeKids[victim.parent] = ks
		free = append(free, victim.num)
		free = append(free, victim.content...)
		for _, c := range victim.content {
			if ln, ok := d.lenObjs[c]; ok {
				free = append(free, ln)
				delete(d.lenObjs, c)
			}
		}
		// a node left without kids is removed too
		n := victim.parent
		for n != d.rootNode && len(d.nodeKids[n]) == 0 {
			par := d.nodeParent[n]
			var pk []int
			for _, k := range d.nodeKids[par] {
				if k != n {
					pk = append(pk, k)
				}
			}
			d.nodeKids[par] = pk
			delete(d.nodeParent, n)
			delete(d.nodeKids, n)
			free = append(free, n)
			if kn, ok := d.kidsObjs[n]; ok {
				free = append(free, kn)
				delete(d.kidsObjs, n)
			}
			n = par
		}
		d.pages = d.pagesInTreeOrder()
		d.emitTree(set)
	case 3: // replace a font object (same mapping, new object value) and the catalog
		i := r.Intn(len(d.fonts))
		fd, aux := d.fonts[i].Objects(d.alloc, d.w.Gen, d.spec.FontPartsIndirect, r)
		fd = append(fd, KV{"Name", Name(d.fonts[i].ResName)})
		set[d.fontNum[i]] = fd
		for n, o := range aux {
			set[n] = o
		}
	case 4: // touch catalog and info only
		set[d.catalog] = Dict{{"Type", Name("Catalog")}, {"Pages", d.ref(d.rootNode)}, {"PageLayout", Name("OneColumn")}}
		set[d.info] = Dict{{"Producer", Str{B: []byte("pdfw rev " + strconv.Itoa(rev))}}}
	default: // replace the content of a page: new lines, new stream objects, old ones freed
		p := d.pages[r.Intn(len(d.pages))]
		old := append([]int{}, p.content...)
		idx := 0
		for i, q := range d.pages {
			if q == p {
				idx = i
			}
		}
		lines := d.makeLines(idx+50*rev, r)
		p.model.Lines = lines
		d.writePageObjects(p, lines, set, r)
		for _, c := range old {
			free = append(free, c)
			if ln, ok := d.lenObjs[c]; ok {
				free = append(free, ln)
				delete(d.lenObjs, c)
			}
		}
	}
	return free
}
