package pdfw

import (
	"fmt"
	"sort"

	"github.com/tsawler/tabula/zzharness/sim"
)

// RandomSpec draws a document spec, swarm style: each run enables a random
// subset of the layout dimensions, so that simple and complex layouts both occur.
func RandomSpec(r *sim.Rand) DocSpec {
	sp := DocSpec{Seed: r.Uint64() | 1}
	sp.Pages = 1 + r.Intn(6)
	sp.Lines = 1 + r.Intn(12)
	// which dimensions are "on" in this run
	on := func(pct int) bool { return r.Pct(pct) }
	density := sim.Pick(r, []int{10, 25, 50, 80})
	nf := 1 + r.Intn(3)
	for i := 0; i < nf; i++ {
		k := FontStdWinAnsi
		if on(density) {
			k = r.Intn(numFontKinds)
		}
		sp.FontKinds = append(sp.FontKinds, k)
	}
	if on(density) {
		sp.EOL = r.Intn(3)
	}
	if on(density) {
		switch r.Intn(3) {
		case 0:
			sp.Tight = true
		case 1:
			sp.Loose = true
		}
	}
	sp.Comments = on(density / 2)
	if on(density) {
		sp.HexPct = sim.Pick(r, []int{20, 50, 100})
	}
	sp.NameEsc = on(density / 2)
	sp.DictBreak = on(density / 2)
	if on(density) {
		sp.Revisions = 1 + r.Intn(4)
		for i := 0; i < sp.Revisions; i++ {
			sp.RevOps = append(sp.RevOps, r.Intn(5))
		}
	}
	stream := on(density)
	sp.XRef = make([]int, 1+sp.Revisions)
	if stream {
		from := r.Intn(len(sp.XRef)) // table ... then stream from revision `from` on
		if r.Bool() {
			from = 0
		}
		for i := from; i < len(sp.XRef); i++ {
			sp.XRef[i] = 1
		}
		if on(60) {
			sp.ObjStm = 1 + r.Intn(2)
			sp.ObjStmN = 1 + r.Intn(2)
			sp.ObjStmZ = r.Bool()
		}
		sp.XRefZ = r.Intn(3)
		if on(30) {
			sp.WidePad = 1 + r.Intn(3)
		}
	}
	sp.Shuffle = on(density)
	sp.Renumber = on(density)
	if r.Pct(4) {
		sp.Bulk = 210 + r.Intn(900)
		sp.EOL = sim.Pick(r, []int{0, 1, 1, 2})
	}
	sp.SplitXRef = on(density / 2)
	sp.ForwardPrev = len(sp.XRef) > 0 && sp.XRef[0] == 0 && on(density/2)
	if on(density) {
		sp.LenMode = 1 + r.Intn(2)
		sp.LenInStm = r.Bool()
	}
	if on(density) {
		sp.BigStream = 1 + r.Intn(2)
		if r.Pct(6) {
			sp.BigStream = 3
		}
	}
	if on(density) {
		sp.Filter = 1 + r.Intn(9)
		if (sp.Filter == 1 || (sp.Filter >= 4 && sp.Filter <= 6)) && on(50) {
			sp.Predictor = sim.Pick(r, []int{2, 10, 11, 12, 13, 14, 15})
		}
	}
	if on(density) {
		sp.Split = 2 + r.Intn(3)
	}
	sp.ContentsArr = on(density / 2)
	sp.ContentsRef = on(density / 2)
	sp.TreeDepth = 1
	if on(density) {
		sp.TreeDepth = 2 + r.Intn(3)
	}
	if on(density) {
		sp.InheritAt = 1 + r.Intn(sp.TreeDepth)
		sp.InheritVary = sp.TreeDepth >= 2 && r.Bool()
	}
	sp.ResIndirect = on(density)
	sp.FontsInline = on(density / 2)
	sp.PageResVary = sp.InheritAt == 0 && on(density)
	sp.FontPartsIndirect = on(density)
	if on(density / 2) {
		sp.Rotate = sim.Pick(r, []int{90, 180, 270})
	}
	sp.KidsRef = on(density / 2)
	if on(density) {
		sp.TextOps = 1 + r.Intn(2)
	}
	sp.FormXObj = on(density / 2)
	if sp.FormXObj && r.Pct(50) {
		sp.FormNest = 1 + r.Intn(2)
	}
	sp.StdWidths = on(density / 2)
	sp.BlankPages = on(density / 2)
	sp.Headings = on(density)
	sp.GState = on(density)
	if on(density) {
		sp.Running = 1 + r.Intn(5)
	}
	sp.Superscripts = on(density)
	return sp
}

// Features lists the non-default layout dimensions of a spec, as stable strings.
// A known finding is identified by a set of features; a spec "has" the finding
// when it has all of them.
func (sp DocSpec) Features() []string {
	var f []string
	add := func(c bool, s string) {
		if c {
			f = append(f, s)
		}
	}
	add(sp.EOL == 1, "eol=crlf")
	add(sp.EOL == 2, "eol=cr")
	add(sp.Tight, "ws=tight")
	add(sp.Loose, "ws=loose")
	add(sp.Comments, "comments")
	add(sp.HexPct > 0, "hexstrings")
	add(sp.NameEsc, "name-escapes")
	add(sp.DictBreak, "dict-break")
	anyStream, anyTable := false, false
	for _, x := range sp.XRef {
		if x == 1 {
			anyStream = true
		} else {
			anyTable = true
		}
	}
	add(anyStream, "xref=stream")
	add(anyStream && anyTable, "xref=mixed")
	add(anyStream && sp.ObjStm > 0, "objstm")
	add(anyStream && sp.ObjStm > 0 && sp.ObjStmZ, "objstm=flate")
	add(anyStream && sp.XRefZ == 1, "xrefstm=flate")
	add(anyStream && sp.XRefZ == 2, "xrefstm=predictor")
	add(anyStream && sp.WidePad > 0, "xrefstm=wide")
	add(sp.Shuffle, "shuffle")
	add(sp.Renumber, "renumber")
	add(sp.ForwardPrev && len(sp.XRef) > 0 && sp.XRef[0] == 0 && sp.ObjStm == 0, "xref=forward-prev")
	add(sp.Bulk > 0, "bulk")
	add(sp.SplitXRef, "split-xref")
	add(sp.LenMode == 1, "len=indirect-before")
	add(sp.LenMode == 2, "len=indirect-after")
	add(sp.LenMode > 0 && sp.LenInStm && anyStream && sp.ObjStm > 0, "len=in-objstm")
	add(sp.BigStream == 1, "big=4k")
	add(sp.BigStream == 2, "big=8k")
	add(sp.BigStream == 3, "big=1m")
	add(sp.Filter > 0, fmt.Sprintf("filter=%d", sp.Filter))
	add((sp.Filter == 1 || (sp.Filter >= 4 && sp.Filter <= 6)) && sp.Predictor > 0, fmt.Sprintf("predictor=%d", sp.Predictor))
	add(sp.Split > 1, "split-content")
	add(sp.ContentsArr, "contents=array")
	add(sp.ContentsRef, "contents=ref")
	add(sp.TreeDepth == 2, "tree=2")
	add(sp.TreeDepth > 2, "tree=deep")
	add(sp.InheritAt == 1, "inherit=parent")
	add(sp.InheritAt >= 2 && sp.TreeDepth >= 2, "inherit=grandparent")
	add(sp.InheritAt >= 1 && sp.InheritVary && sp.TreeDepth >= 2, "inherit=varied")
	add(sp.ResIndirect, "res=indirect")
	add(sp.FontsInline, "fonts=inline")
	add(sp.PageResVary && sp.InheritAt == 0 && len(sp.FontKinds) > 1, "res=per-page")
	add(sp.FontPartsIndirect, "fontparts=indirect")
	add(sp.Rotate != 0, "rotate")
	add(sp.KidsRef, "kids=ref")
	add(sp.TextOps == 1, "textops=TJ")
	add(sp.TextOps >= 2, "textops=mixed")
	add(sp.FormXObj, "form-xobject")
	add(sp.Superscripts, "superscripts")
	add(sp.GState, "gstate")
	add(sp.Running > 0, "running-heads")
	add(sp.FormXObj && sp.FormNest > 0, "form-nest")
	add(sp.StdWidths, "std-widths")
	add(sp.BlankPages, "blank-pages")
	add(sp.Headings, "headings")
	add(sp.Revisions > 0, "revisions")
	for _, op := range sp.RevOps {
		add(true, fmt.Sprintf("revop=%d", op))
	}
	for _, k := range sp.FontKinds {
		if k != FontStdWinAnsi {
			add(true, "font="+FontKindNames[k])
		}
	}
	add(sp.Pages > 1, "pages>1")
	sort.Strings(f)
	// dedupe
	out := f[:0]
	for i, s := range f {
		if i == 0 || s != f[i-1] {
			out = append(out, s)
		}
	}
	return out
}

// HasAll reports whether the spec has every feature in set.
func HasAll(features []string, set []string) bool {
	have := map[string]bool{}
	for _, f := range features {
		have[f] = true
	}
	for _, s := range set {
		if !have[s] {
			return false
		}
	}
	return true
}

// Shrinks proposes simpler specs: each candidate resets one dimension to its
// default or reduces a count.
func (sp DocSpec) Shrinks() []DocSpec {
	var out []DocSpec
	try := func(f func(s *DocSpec) bool) {
		c := sp
		c.FontKinds = append([]int{}, sp.FontKinds...)
		c.XRef = append([]int{}, sp.XRef...)
		c.RevOps = append([]int{}, sp.RevOps...)
		if f(&c) {
			out = append(out, c)
		}
	}
	try(func(s *DocSpec) bool {
		if s.Revisions == 0 {
			return false
		}
		s.Revisions--
		s.RevOps = s.RevOps[:s.Revisions]
		s.XRef = s.XRef[:1+s.Revisions]
		return true
	})
	try(func(s *DocSpec) bool {
		if s.Revisions == 0 {
			return false
		}
		// drop the first update instead of the last
		s.Revisions--
		s.RevOps = s.RevOps[1:]
		s.XRef = append(s.XRef[:1], s.XRef[2:]...)
		return true
	})
	for i := range sp.RevOps {
		i := i
		try(func(s *DocSpec) bool {
			if s.RevOps[i] == 4 {
				return false
			}
			s.RevOps[i] = 4
			return true
		})
	}
	try(func(s *DocSpec) bool {
		if s.Pages <= 1 {
			return false
		}
		s.Pages = 1
		return true
	})
	try(func(s *DocSpec) bool {
		if s.Pages <= 1 {
			return false
		}
		s.Pages--
		return true
	})
	try(func(s *DocSpec) bool {
		if s.Lines <= 1 {
			return false
		}
		s.Lines = 1
		return true
	})
	try(func(s *DocSpec) bool {
		if len(s.FontKinds) <= 1 {
			return false
		}
		s.FontKinds = s.FontKinds[:1]
		return true
	})
	try(func(s *DocSpec) bool {
		if len(s.FontKinds) <= 1 {
			return false
		}
		s.FontKinds = s.FontKinds[1:]
		return true
	})
	for i := range sp.FontKinds {
		i := i
		try(func(s *DocSpec) bool {
			if s.FontKinds[i] == FontStdWinAnsi {
				return false
			}
			s.FontKinds[i] = FontStdWinAnsi
			return true
		})
	}
	try(func(s *DocSpec) bool {
		if s.EOL == 0 {
			return false
		}
		s.EOL = 0
		return true
	})
	try(func(s *DocSpec) bool {
		if !s.Tight {
			return false
		}
		s.Tight = false
		return true
	})
	try(func(s *DocSpec) bool {
		if !s.Loose {
			return false
		}
		s.Loose = false
		return true
	})
	try(func(s *DocSpec) bool {
		if !s.Comments {
			return false
		}
		s.Comments = false
		return true
	})
	try(func(s *DocSpec) bool {
		if s.HexPct == 0 {
			return false
		}
		s.HexPct = 0
		return true
	})
	try(func(s *DocSpec) bool {
		if !s.NameEsc {
			return false
		}
		s.NameEsc = false
		return true
	})
	try(func(s *DocSpec) bool {
		if !s.DictBreak {
			return false
		}
		s.DictBreak = false
		return true
	})
	try(func(s *DocSpec) bool {
		any := false
		for i := range s.XRef {
			if s.XRef[i] != 0 {
				any = true
				s.XRef[i] = 0
			}
		}
		return any
	})
	try(func(s *DocSpec) bool {
		// all-stream instead of mixed
		mixed := false
		for i := range s.XRef {
			if s.XRef[i] != s.XRef[0] {
				mixed = true
			}
		}
		if !mixed {
			return false
		}
		for i := range s.XRef {
			s.XRef[i] = 1
		}
		return true
	})
	try(func(s *DocSpec) bool {
		if s.ObjStm == 0 {
			return false
		}
		s.ObjStm = 0
		return true
	})
	try(func(s *DocSpec) bool {
		if s.ObjStmN <= 1 {
			return false
		}
		s.ObjStmN = 1
		return true
	})
	try(func(s *DocSpec) bool {
		if !s.ObjStmZ {
			return false
		}
		s.ObjStmZ = false
		return true
	})
	try(func(s *DocSpec) bool {
		if s.XRefZ == 0 {
			return false
		}
		s.XRefZ = 0
		return true
	})
	try(func(s *DocSpec) bool {
		if s.WidePad == 0 {
			return false
		}
		s.WidePad = 0
		return true
	})
	try(func(s *DocSpec) bool {
		if !s.Shuffle {
			return false
		}
		s.Shuffle = false
		return true
	})
	try(func(s *DocSpec) bool {
		if !s.ForwardPrev {
			return false
		}
		s.ForwardPrev = false
		return true
	})
	try(func(s *DocSpec) bool {
		if s.Bulk == 0 {
			return false
		}
		s.Bulk = 0
		return true
	})
	try(func(s *DocSpec) bool {
		if !s.Renumber {
			return false
		}
		s.Renumber = false
		return true
	})
	try(func(s *DocSpec) bool {
		if !s.SplitXRef {
			return false
		}
		s.SplitXRef = false
		return true
	})
	try(func(s *DocSpec) bool {
		if s.LenMode == 0 {
			return false
		}
		s.LenMode = 0
		return true
	})
	try(func(s *DocSpec) bool {
		if !s.LenInStm {
			return false
		}
		s.LenInStm = false
		return true
	})
	try(func(s *DocSpec) bool {
		if s.BigStream == 0 {
			return false
		}
		s.BigStream--
		return true
	})
	try(func(s *DocSpec) bool {
		if s.Filter == 0 {
			return false
		}
		s.Filter = 0
		s.Predictor = 0
		return true
	})
	try(func(s *DocSpec) bool {
		if s.Predictor == 0 {
			return false
		}
		s.Predictor = 0
		return true
	})
	try(func(s *DocSpec) bool {
		if s.Split <= 1 {
			return false
		}
		s.Split = 0
		return true
	})
	try(func(s *DocSpec) bool {
		if !s.ContentsArr {
			return false
		}
		s.ContentsArr = false
		return true
	})
	try(func(s *DocSpec) bool {
		if !s.ContentsRef {
			return false
		}
		s.ContentsRef = false
		return true
	})
	try(func(s *DocSpec) bool {
		if !s.InheritVary {
			return false
		}
		s.InheritVary = false
		return true
	})
	try(func(s *DocSpec) bool {
		if s.InheritAt == 0 {
			return false
		}
		s.InheritAt--
		return true
	})
	try(func(s *DocSpec) bool {
		if s.TreeDepth <= 1 {
			return false
		}
		s.TreeDepth--
		if s.InheritAt > s.TreeDepth {
			s.InheritAt = s.TreeDepth
		}
		return true
	})
	try(func(s *DocSpec) bool {
		if !s.ResIndirect {
			return false
		}
		s.ResIndirect = false
		return true
	})
	try(func(s *DocSpec) bool {
		if !s.FontsInline {
			return false
		}
		s.FontsInline = false
		return true
	})
	try(func(s *DocSpec) bool {
		if !s.PageResVary {
			return false
		}
		s.PageResVary = false
		return true
	})
	try(func(s *DocSpec) bool {
		if !s.FontPartsIndirect {
			return false
		}
		s.FontPartsIndirect = false
		return true
	})
	try(func(s *DocSpec) bool {
		if s.Rotate == 0 {
			return false
		}
		s.Rotate = 0
		return true
	})
	try(func(s *DocSpec) bool {
		if !s.KidsRef {
			return false
		}
		s.KidsRef = false
		return true
	})
	try(func(s *DocSpec) bool {
		if s.TextOps == 0 {
			return false
		}
		s.TextOps = 0
		return true
	})
	try(func(s *DocSpec) bool {
		if !s.GState {
			return false
		}
		s.GState = false
		return true
	})
	try(func(s *DocSpec) bool {
		if s.Running == 0 {
			return false
		}
		s.Running--
		return true
	})
	try(func(s *DocSpec) bool {
		if !s.Superscripts {
			return false
		}
		s.Superscripts = false
		return true
	})
	try(func(s *DocSpec) bool {
		if s.FormNest == 0 {
			return false
		}
		s.FormNest--
		return true
	})
	try(func(s *DocSpec) bool {
		if !s.FormXObj {
			return false
		}
		s.FormXObj = false
		s.FormNest = 0
		return true
	})
	return out
}

// SpecWithFeatures builds a small spec that has exactly the requested features
// switched on (plus what they imply). ok is false for an unknown feature.
func SpecWithFeatures(features []string) (DocSpec, bool) {
	sp := DocSpec{Seed: 12345, Pages: 2, Lines: 3, FontKinds: []int{FontStdWinAnsi}, XRef: []int{0}, TreeDepth: 1}
	needStream := false
	for _, f := range features {
		switch {
		case f == "eol=crlf":
			sp.EOL = 1
		case f == "eol=cr":
			sp.EOL = 2
		case f == "ws=tight":
			sp.Tight = true
		case f == "ws=loose":
			sp.Loose = true
		case f == "comments":
			sp.Comments = true
		case f == "hexstrings":
			sp.HexPct = 100
		case f == "name-escapes":
			sp.NameEsc = true
		case f == "dict-break":
			sp.DictBreak = true
		case f == "xref=stream":
			needStream = true
		case f == "xref=mixed":
			needStream = true
			if sp.Revisions == 0 {
				sp.Revisions = 1
				sp.RevOps = []int{4}
			}
		case f == "objstm":
			needStream = true
			sp.ObjStm = 2
			sp.ObjStmN = 1
		case f == "objstm=flate":
			needStream = true
			sp.ObjStm = 2
			sp.ObjStmN = 1
			sp.ObjStmZ = true
		case f == "xrefstm=flate":
			needStream = true
			sp.XRefZ = 1
		case f == "xrefstm=predictor":
			needStream = true
			sp.XRefZ = 2
		case f == "xrefstm=wide":
			needStream = true
			sp.WidePad = 2
		case f == "shuffle":
			sp.Shuffle = true
		case f == "renumber":
			sp.Renumber = true
		case f == "xref=forward-prev":
			sp.ForwardPrev = true
		case f == "bulk":
			sp.Bulk = 300
		case f == "split-xref":
			sp.SplitXRef = true
		case f == "len=indirect-before":
			sp.LenMode = 1
		case f == "len=indirect-after":
			sp.LenMode = 2
		case f == "len=in-objstm":
			needStream = true
			sp.ObjStm = 2
			sp.ObjStmN = 1
			sp.LenInStm = true
			if sp.LenMode == 0 {
				sp.LenMode = 1
			}
		case f == "big=4k":
			sp.BigStream = 1
		case f == "big=8k":
			sp.BigStream = 2
		case f == "big=1m":
			sp.BigStream = 3
			fmt.Sscanf(f[7:], "%d", &sp.Filter)
		case len(f) > 10 && f[:10] == "predictor=":
			if sp.Filter < 4 || sp.Filter > 6 {
				sp.Filter = 1
			}
			fmt.Sscanf(f[10:], "%d", &sp.Predictor)
		case f == "split-content":
			sp.Split = 3
			sp.Lines = 6
		case f == "contents=array":
			sp.ContentsArr = true
		case f == "contents=ref":
			sp.ContentsRef = true
			sp.ContentsArr = true
		case f == "tree=2":
			sp.TreeDepth = 2
		case f == "tree=deep":
			sp.TreeDepth = 3
		case f == "inherit=varied":
			if sp.TreeDepth < 2 {
				sp.TreeDepth = 2
			}
			if sp.InheritAt == 0 {
				sp.InheritAt = 1
			}
			sp.InheritVary = true
			sp.Pages = 4
		case f == "inherit=parent":
			sp.InheritAt = 1
		case f == "inherit=grandparent":
			if sp.TreeDepth < 2 {
				sp.TreeDepth = 2
			}
			sp.InheritAt = 2
		case f == "fonts=inline":
			sp.FontsInline = true
		case f == "res=per-page":
			sp.PageResVary = true
			sp.FontKinds = []int{FontStdWinAnsi, FontStdMacRoman}
		case f == "res=indirect":
			sp.ResIndirect = true
		case f == "fontparts=indirect":
			sp.FontPartsIndirect = true
		case f == "rotate":
			sp.Rotate = 90
		case f == "kids=ref":
			sp.KidsRef = true
		case f == "textops=TJ":
			sp.TextOps = 1
		case f == "textops=mixed":
			sp.TextOps = 2
		case f == "std-widths":
			sp.StdWidths = true
		case f == "blank-pages":
			sp.BlankPages = true
			sp.Pages = 4
		case f == "headings":
			sp.Headings = true
		case f == "running-heads":
			sp.Running = 4
			sp.Pages = 3
		case f == "gstate":
			sp.GState = true
			sp.Lines = 6
		case f == "superscripts":
			sp.Superscripts = true
			sp.Lines = 5
		case f == "form-xobject":
			sp.FormXObj = true
			sp.Lines = 4
		case f == "form-nest":
			sp.FormXObj = true
			sp.FormNest = 2
			sp.Lines = 5
		case f == "revisions":
			if sp.Revisions == 0 {
				sp.Revisions = 1
				sp.RevOps = []int{4}
			}
		case len(f) > 6 && f[:6] == "revop=":
			op := 0
			fmt.Sscanf(f[6:], "%d", &op)
			if sp.Revisions == 1 && len(sp.RevOps) == 1 && sp.RevOps[0] == 4 && op != 4 {
				sp.RevOps[0] = op
			} else if op != 4 || sp.Revisions == 0 {
				sp.Revisions++
				sp.RevOps = append(sp.RevOps, op)
			}
		case len(f) > 5 && f[:5] == "font=":
			found := false
			for k, n := range FontKindNames {
				if n == f[5:] {
					sp.FontKinds = []int{k}
					found = true
				}
			}
			if !found {
				return sp, false
			}
		case f == "pages>1":
			sp.Pages = 2
		default:
			return sp, false
		}
	}
	sp.XRef = make([]int, 1+sp.Revisions)
	if needStream {
		mixed := false
		for _, f := range features {
			if f == "xref=mixed" {
				mixed = true
			}
		}
		for i := range sp.XRef {
			if !mixed || i > 0 {
				sp.XRef[i] = 1
			}
		}
	}
	return sp, true
}

// Without returns the spec with the dimension behind feature f reset to its default.
func (sp DocSpec) Without(f string) DocSpec {
	c := sp
	c.FontKinds = append([]int{}, sp.FontKinds...)
	c.XRef = append([]int{}, sp.XRef...)
	c.RevOps = append([]int{}, sp.RevOps...)
	switch {
	case f == "eol=crlf", f == "eol=cr":
		c.EOL = 0
	case f == "ws=tight":
		c.Tight = false
	case f == "ws=loose":
		c.Loose = false
	case f == "comments":
		c.Comments = false
	case f == "hexstrings":
		c.HexPct = 0
	case f == "name-escapes":
		c.NameEsc = false
	case f == "dict-break":
		c.DictBreak = false
	case f == "xref=stream":
		for i := range c.XRef {
			c.XRef[i] = 0
		}
	case f == "xref=mixed":
		for i := range c.XRef {
			c.XRef[i] = 1
		}
	case f == "objstm", f == "objstm=flate":
		c.ObjStm = 0
		c.ObjStmZ = false
	case f == "xrefstm=flate", f == "xrefstm=predictor":
		c.XRefZ = 0
	case f == "xrefstm=wide":
		c.WidePad = 0
	case f == "shuffle":
		c.Shuffle = false
	case f == "renumber":
		c.Renumber = false
	case f == "xref=forward-prev":
		c.ForwardPrev = false
	case f == "bulk":
		c.Bulk = 0
	case f == "split-xref":
		c.SplitXRef = false
	case f == "len=indirect-before", f == "len=indirect-after":
		c.LenMode = 0
	case f == "len=in-objstm":
		c.LenInStm = false
	case f == "big=4k", f == "big=8k", f == "big=1m":
		c.BigStream = 0
	case len(f) > 7 && f[:7] == "filter=":
		c.Filter, c.Predictor = 0, 0
	case len(f) > 10 && f[:10] == "predictor=":
		c.Predictor = 0
	case f == "split-content":
		c.Split = 0
	case f == "contents=array":
		c.ContentsArr = false
	case f == "contents=ref":
		c.ContentsRef = false
	case f == "tree=2", f == "tree=deep":
		c.TreeDepth = 1
		if c.InheritAt > 1 {
			c.InheritAt = 1
		}
	case f == "inherit=varied":
		c.InheritVary = false
	case f == "inherit=parent", f == "inherit=grandparent":
		c.InheritAt = 0
	case f == "res=indirect":
		c.ResIndirect = false
	case f == "fonts=inline":
		c.FontsInline = false
	case f == "res=per-page":
		c.PageResVary = false
	case f == "fontparts=indirect":
		c.FontPartsIndirect = false
	case f == "rotate":
		c.Rotate = 0
	case f == "kids=ref":
		c.KidsRef = false
	case f == "textops=TJ", f == "textops=mixed":
		c.TextOps = 0
	case f == "std-widths":
		c.StdWidths = false
	case f == "blank-pages":
		c.BlankPages = false
	case f == "headings":
		c.Headings = false
	case f == "running-heads":
		c.Running = 0
	case f == "gstate":
		c.GState = false
	case f == "superscripts":
		c.Superscripts = false
	case f == "form-xobject":
		c.FormXObj = false
		c.FormNest = 0
	case f == "form-nest":
		c.FormNest = 0
	case f == "revisions":
		c.Revisions = 0
		c.RevOps = nil
		c.XRef = c.XRef[:1]
	case len(f) > 6 && f[:6] == "revop=":
		op := 0
		fmt.Sscanf(f[6:], "%d", &op)
		for i := range c.RevOps {
			if c.RevOps[i] == op {
				c.RevOps[i] = 4
				if op == 4 {
					c.RevOps[i] = 0
				}
			}
		}
	case len(f) > 5 && f[:5] == "font=":
		for i, k := range c.FontKinds {
			if FontKindNames[k] == f[5:] {
				c.FontKinds[i] = FontStdWinAnsi
			}
		}
	case f == "pages>1":
		c.Pages = 1
	}
	return c
}

// PlainStorage returns the same logical document in the simplest physical
// layout: every storage dimension reset, every content dimension kept. The two
// documents show the same text at the same positions.
func (sp DocSpec) PlainStorage() DocSpec {
	c := sp
	c.FontKinds = append([]int{}, sp.FontKinds...)
	c.RevOps = append([]int{}, sp.RevOps...)
	c.XRef = make([]int, len(sp.XRef))
	c.EOL, c.Tight, c.Loose, c.Comments, c.HexPct, c.NameEsc, c.DictBreak = 0, false, false, false, 0, false, false
	c.ObjStm, c.ObjStmN, c.ObjStmZ, c.XRefZ, c.WidePad = 0, 0, false, 0, 0
	c.Shuffle, c.Renumber, c.SplitXRef, c.Bulk, c.ForwardPrev = false, false, false, 0, false
	c.LenMode, c.LenInStm, c.Filter, c.Predictor, c.Split = 0, false, 0, 0, 0
	c.ContentsArr, c.ContentsRef = false, false
	c.TreeDepth, c.InheritAt, c.InheritVary, c.ResIndirect, c.FontPartsIndirect, c.KidsRef = 1, 0, false, false, false, false
	c.FontsInline, c.PageResVary = false, false
	return c
}
