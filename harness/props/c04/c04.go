// Package c04 decides property C04: object lookup returns the newest revision,
// in any access order. The file is an append-only log of revisions written by
// the independent writer; after each commit a seeded lookup history runs on one
// reader.Reader and is checked, step by step, against a map model.
package c04

import (
	"os"
	"bytes"
	"errors"
	"fmt"
	"math"
	"strconv"
	"strings"

	"github.com/tsawler/tabula/core"
	"github.com/tsawler/tabula/reader"
	"github.com/tsawler/tabula/resolver"
	"github.com/tsawler/tabula/zzharness/pdfw"
	"github.com/tsawler/tabula/zzharness/sim"
	"github.com/tsawler/tabula/zzsimrt"
)

// ObjOp is what one revision does to one playground object.
type ObjOp struct {
	Num   int  `json:"num"`
	Del   bool `json:"del,omitempty"`
	Kind  int  `json:"kind"`            // value kind (see makeValue)
	InStm bool `json:"in_stm,omitempty"` // pack into an object stream (stream revisions only)
}

type RevPlan struct {
	Stream bool    `json:"stream"` // cross-reference stream (else table)
	Ops    []ObjOp `json:"ops"`
	Repack bool    `json:"repack,omitempty"` // re-emit the members of the oldest live container and free it
	StmZ   bool    `json:"stm_z,omitempty"`
	XRefZ  int     `json:"xref_z,omitempty"`
	Conts  int     `json:"conts,omitempty"`
	Shuffle uint64 `json:"shuffle,omitempty"`
	LenInStm bool  `json:"len_in_stm,omitempty"`
	NoHead   bool  `json:"no_head,omitempty"` // the update does not rewrite object 0's entry when it frees objects
	Forward    bool     `json:"forward,omitempty"` // first revision, classic table: a first section whose /Prev points forward (linearized layout)
	BulkRanges [][2]int `json:"bulk_ranges,omitempty"` // (offset, length) runs of the bulk objects rewritten by this update
}

type LStep struct {
	Op  string `json:"op"` // get resolve deep xref rget clearcache reopen
	Num int    `json:"num,omitempty"`
	Fail int   `json:"fail,omitempty"` // rget: make the n-th lookup of the simulated object source fail (1-based, 0 = none)
}

type Spec struct {
	Seed    uint64    `json:"seed"`
	N       int       `json:"n"`
	EOL     int       `json:"eol,omitempty"`
	Bulk    int       `json:"bulk,omitempty"` // extra plain objects in revision 0: cross-reference data longer than any read buffer
	Tight   bool      `json:"tight,omitempty"`
	Revs    []RevPlan `json:"revs"`
	History [][]LStep `json:"history"`
	Enumerated bool   `json:"enumerated,omitempty"`
	Misdirect *Misdirect `json:"misdirect,omitempty"` // at-rest fault: one cross-reference entry points at another object's superseded body
}

// Misdirect: in revision Rev the entry of object A carries the offset at which
// revision ToRev wrote object B.
type Misdirect struct {
	Rev, A, ToRev, B int
}

type Prop struct{}

func New() *Prop        { return &Prop{} }
func (*Prop) ID() string { return "C04" }

const firstPlay = 1 // the playground is 1..N; catalog (N+1) and pages (N+2) are structural and never touched

// ---- exhaustive small space: n = 2 objects, r <= 3 revisions ----

// every sequence of cross-reference kinds (false = table, true = stream), incl. a table
// appended to a file whose earlier sections are streams
var xrefSeqs = map[int][][]bool{
	1: {{false}, {true}},
	2: {{false, false}, {false, true}, {true, true}, {true, false}},
	3: {{false, false, false}, {false, false, true}, {false, true, true}, {true, true, true},
		{true, false, false}, {true, true, false}, {true, false, true}, {false, true, false}},
}

// per revision and object: 0 untouched, 1 set plain, 2 set in object stream, 3 delete
func enumCount(maxR int) int {
	total := 0
	for r := 1; r <= maxR; r++ {
		per := 1
		for i := 0; i < r; i++ {
			per *= 16
		}
		total += per * len(xrefSeqs[r])
	}
	return total
}

func enumSpec(idx int, maxR int) (Spec, bool) {
	for r := 1; r <= maxR; r++ {
		per := 1
		for i := 0; i < r; i++ {
			per *= 16
		}
		n := per * len(xrefSeqs[r])
		if idx >= n {
			idx -= n
			continue
		}
		seq := xrefSeqs[r][idx/per]
		code := idx % per
		sp := Spec{Seed: uint64(1000 + idx), N: 2, Enumerated: true}
		for rev := 0; rev < r; rev++ {
			c := code % 16
			code /= 16
			rp := RevPlan{Stream: seq[rev], Conts: 1}
			for o := 0; o < 2; o++ {
				a := (c >> (2 * uint(o))) & 3
				switch a {
				case 1:
					rp.Ops = append(rp.Ops, ObjOp{Num: firstPlay + o, Kind: (rev + o) % numKinds})
				case 2:
					rp.Ops = append(rp.Ops, ObjOp{Num: firstPlay + o, Kind: (rev + 2*o) % 6, InStm: true})
				case 3:
					rp.Ops = append(rp.Ops, ObjOp{Num: firstPlay + o, Del: true})
				}
			}
			sp.Revs = append(sp.Revs, rp)
		}
		return sp, true
	}
	return Spec{}, false
}

func canonicalHistory(n int, r *sim.Rand) []LStep {
	var h []LStep
	nums := r.Perm(n + 4)
	for _, k := range nums {
		h = append(h, LStep{Op: "get", Num: k})
	}
	h = append(h, LStep{Op: "clearcache"})
	for _, k := range r.Perm(n + 4) {
		h = append(h, LStep{Op: sim.Pick(r, []string{"get", "xref", "deep", "resolve"}), Num: k})
	}
	for _, k := range nums {
		h = append(h, LStep{Op: "get", Num: k})
	}
	return h
}

func maxEnumR(tier string) int {
	if tier == "thorough" {
		return 3
	}
	return 2
}

func (p *Prop) Generate(base uint64, index int, env *sim.Env) *sim.Case {
	seed := sim.RunSeed(base, "C04", index)
	r := sim.NewRand(seed)
	c := &sim.Case{Prop: "C04", Seed: seed, Index: index, Mode: "fault-free"}
	if sp, ok := enumSpec(index, maxEnumR(env.Tier)); ok {
		for range sp.Revs {
			sp.History = append(sp.History, canonicalHistory(sp.N, r))
		}
		c.Mode = "enumerated"
		c.SetSpec(sp)
		return c
	}
	sp := Spec{Seed: r.Uint64() | 1, N: 1 + r.Intn(12)}
	if r.Pct(25) {
		sp.EOL = r.Intn(3)
	}
	sp.Tight = r.Pct(25)
	if r.Pct(8) {
		// a few hundred objects: the cross-reference table or stream spans several read buffers,
		// with every end-of-line style and many alignments of entries against buffer boundaries
		// (the holes of the playground split the table into subsections of varying length)
		sp.Bulk = 150 + r.Intn(900)
		sp.EOL = sim.Pick(r, []int{0, 1, 1, 2})
	}
	nrev := 1 + r.Intn(5)
	streamFrom := nrev + 1 // table ... then stream from revision streamFrom on
	if r.Pct(60) {
		streamFrom = r.Intn(nrev + 1)
	}
	live := map[int]bool{}
	anyOrder := false
	kindOf := map[int]int{}
	peerHeavy := r.Pct(10)
	var uncleanAt [][]int // per revision: live objects whose references lead to a deleted or undefined object
	for rev := 0; rev < nrev; rev++ {
		if rev == 0 {
			anyOrder = r.Pct(30)
		}
		isStream := rev >= streamFrom
		if anyOrder {
			isStream = r.Bool()
		}
		rp := RevPlan{Stream: isStream, Conts: 1 + r.Intn(2), StmZ: r.Bool(), XRefZ: r.Intn(3), LenInStm: r.Bool()}
		if r.Pct(50) {
			rp.Shuffle = r.Uint64() | 1
		}
		rp.Forward = rev == 0 && !isStream && r.Pct(15)
		if rp.Stream && rev > 0 && r.Pct(20) {
			rp.Repack = true
		}
		rp.NoHead = rev > 0 && r.Pct(35)
		for o := 0; o < sp.N; o++ {
			num := firstPlay + o
			switch {
			case rev == 0 && r.Pct(70), rev > 0 && r.Pct(30):
				kind := r.Intn(numKinds)
				if peerHeavy && r.Pct(60) {
					kind = 9 + r.Intn(2)
				}
				rp.Ops = append(rp.Ops, ObjOp{Num: num, Kind: kind, InStm: r.Pct(60)})
				live[num] = true
				kindOf[num] = kind
			case live[num] && r.Pct(25):
				rp.Ops = append(rp.Ops, ObjOp{Num: num, Del: true})
				live[num] = false
			}
		}
		if rev > 0 && sp.Bulk > 0 && r.Pct(80) {
			// sparse updates: short runs (subsections of their own, which shift everything after
			// them by a few bytes) and long ones (which cross read-buffer boundaries)
			for k, m := 0, 1+r.Intn(6); k < m; k++ {
				off := r.Intn(sp.Bulk)
				ln := 1 + r.Intn(3)
				if r.Bool() {
					ln = 1 + r.Intn(sp.Bulk-off)
				}
				rp.BulkRanges = append(rp.BulkRanges, [2]int{off, ln})
			}
		}
		sp.Revs = append(sp.Revs, rp)
		var uc []int
		for o := 0; o < sp.N; o++ {
			num := firstPlay + o
			if !live[num] {
				continue
			}
			switch kindOf[num] {
			case 9:
				if !live[firstPlay+num%sp.N] {
					uc = append(uc, num)
				}
			case 10:
				if !live[firstPlay+num%sp.N] || !live[firstPlay+(num+1)%sp.N] {
					uc = append(uc, num)
				}
			}
		}
		uncleanAt = append(uncleanAt, uc)
	}
	faulty := r.Pct(25)
	if faulty {
		c.Mode = "faults"
	}
	if !faulty && nrev > 1 && r.Pct(20) {
		// at-rest fault: a misdirected cross-reference entry (decided after a dry build, which
		// tells where the superseded bodies are)
		b, _ := build(&sp)
		last := nrev - 1
		var as, bs [][2]int
		for _, num := range pdfw.SortedNums(b.Offsets[last]) {
			if num >= firstPlay && num <= sp.N {
				as = append(as, [2]int{last, num})
			}
		}
		for rv := 0; rv < last; rv++ {
			for _, num := range pdfw.SortedNums(b.Offsets[rv]) {
				if num >= firstPlay && num <= sp.N {
					bs = append(bs, [2]int{rv, num})
				}
			}
		}
		if len(as) > 0 && len(bs) > 0 {
			a, bb := sim.Pick(r, as), sim.Pick(r, bs)
			if a[1] != bb[1] {
				sp.Misdirect = &Misdirect{Rev: a[0], A: a[1], ToRev: bb[0], B: bb[1]}
				c.Mode = "faults"
			}
		}
	}
	for rev := 0; rev < nrev; rev++ {
		n := 3 + r.Intn(25)
		if r.Pct(10) {
			n = 40
		}
		// a long-lived resolver asked many times, many of the questions failing: whatever it
		// counts or remembers per question must be given back on every way out
		hammer := r.Pct(4)
		if hammer {
			n = 120 + r.Intn(120)
		}
		var h []LStep
		for i := 0; i < n; i++ {
			op := sim.Pick(r, []string{"get", "get", "get", "resolve", "deep", "xref", "rget", "rget", "rshallow", "clearcache", "reopen"})
			if hammer {
				op = sim.Pick(r, []string{"rget", "rget", "rget", "rshallow", "get", "deep"})
			}
			st := LStep{Op: op, Num: r.Intn(sp.N + 6)}
			if sp.Bulk > 0 && r.Pct(40) {
				st.Num = r.Intn(sp.N + 4 + sp.Bulk)
			}
			if hammer && len(uncleanAt[rev]) > 0 && r.Pct(60) {
				st.Num = sim.Pick(r, uncleanAt[rev])
			} else if i > 0 && r.Pct(25) {
				st.Num = h[r.Intn(len(h))].Num // repeat an earlier number
			}
			if op == "rget" && faulty && r.Pct(50) {
				st.Fail = 1 + r.Intn(3)
			}
			if faulty && r.Pct(6) {
				// a transient storage fault: the file reads as empty during this one lookup
				st.Op = "glitch"
			}
			h = append(h, st)
		}
		sp.History = append(sp.History, h)
	}
	c.SetSpec(sp)
	return c
}

// ---- values: every written value is unique (tagged by object, revision) ----

const numKinds = 11

func makeValue(w *pdfw.Writer, sp *Spec, rev int, op ObjOp, r *sim.Rand, set map[int]pdfw.Obj, inStm map[int]bool, lenInStm bool) pdfw.Obj {
	tag := fmt.Sprintf("o%dr%ds%d", op.Num, rev, r.Intn(1000))
	serial := op.Num*1000 + rev*10 + 1
	switch op.Kind {
	case 0:
		return serial
	case 1:
		return pdfw.Real(float64(serial) + 0.25)
	case 2:
		return pdfw.Str{B: []byte("str " + tag + " (x) \\ end")}
	case 3:
		return pdfw.Name("N" + tag)
	case 4:
		return pdfw.Arr{pdfw.Name(tag), serial, pdfw.Ref{Num: sp.N + 1, Gen: 0}, pdfw.Str{B: []byte(tag)}, pdfw.Arr{1, pdfw.Real(2.5), nil, true}}
	case 5:
		return pdfw.Dict{{"Tag", pdfw.Str{B: []byte(tag)}}, {"Serial", serial}, {"Root", pdfw.Ref{Num: sp.N + 1, Gen: 0}},
			{"Sub", pdfw.Dict{{"K", pdfw.Name(tag)}, {"Pages", pdfw.Ref{Num: sp.N + 2, Gen: 0}}}}, {"Flag", false}}
	case 9:
		// a value that refers to another playground object, which a later revision may
		// delete: a deep resolution of this one then fails below the top level
		return pdfw.Dict{{"Tag", pdfw.Name(tag)}, {"Peer", pdfw.Ref{Num: firstPlay + op.Num%sp.N}}, {"Serial", serial}}
	case 10:
		return pdfw.Arr{pdfw.Name(tag), pdfw.Dict{{"Deep", pdfw.Arr{pdfw.Ref{Num: firstPlay + (op.Num+1)%sp.N}}}}, pdfw.Ref{Num: firstPlay + op.Num%sp.N}}
	case 6, 7, 8:
		plain := []byte("stream data " + tag + "\n" + strings.Repeat("pad "+tag+" ", r.Intn(4)*300))
		st := &pdfw.Stream{Dict: pdfw.Dict{{"Tag", pdfw.Name(tag)}}, Plain: plain}
		switch r.Intn(4) {
		case 1:
			st.Filters = []pdfw.FilterSpec{{Name: "FlateDecode", Columns: 1, Colors: 1}}
		case 2:
			st.Filters = []pdfw.FilterSpec{{Name: "ASCIIHexDecode"}}
		case 3:
			st.Filters = []pdfw.FilterSpec{{Name: "ASCII85Decode"}, {Name: "FlateDecode", Columns: 1, Colors: 1}}
		}
		if op.Kind >= 7 {
			// indirect /Length: resolution nests while the stream's parser is suspended
			ln := w.NextNum()
			st.LenIndirect = true
			st.LenRef = pdfw.Ref{Num: ln}
			st.Raw = pdfw.Encode(st.Plain, st.Filters, r)
			set[ln] = len(st.Raw)
			inStm[ln] = lenInStm && op.Kind == 8
		}
		return st
	}
	return nil
}

// build commits all revisions and returns per-revision appended bytes and models.
func build(sp *Spec) (*pdfw.Built, [][]byte) { return buildHooked(sp, nil) }

// buildCase builds the file of a case, with its at-rest fault if it has one.
func buildCase(sp *Spec) (*pdfw.Built, [][]byte, bool) {
	built, commits := build(sp)
	if md := sp.Misdirect; md != nil && md.Rev < len(built.Offsets) && md.ToRev < len(built.Offsets) {
		if target, ok := built.Offsets[md.ToRev][md.B]; ok {
			if _, ok := built.Offsets[md.Rev][md.A]; ok {
				b2, c2 := buildHooked(sp, func(rev, num, off int) int {
					if rev == md.Rev && num == md.A {
						return target
					}
					return off
				})
				return b2, c2, true
			}
		}
	}
	return built, commits, false
}

func buildHooked(sp *Spec, offsetHook func(rev, num, off int) int) (*pdfw.Built, [][]byte) {
	r := sim.NewRand(sp.Seed)
	st := pdfw.Style{EOL: []string{"\n", "\r\n", "\r"}[sp.EOL%3], Tight: sp.Tight, OctalPct: 50}
	cat, pgs := sp.N+1, sp.N+2
	w := pdfw.NewWriter(st, r.Split("writer"), pdfw.Ref{Num: cat}, nil, sp.N+3)
	w.OffsetHook = offsetHook
	var commits [][]byte
	for rev, rp := range sp.Revs {
		set := map[int]pdfw.Obj{}
		inStm := map[int]bool{}
		var free []int
		if rev == 0 {
			for i := 0; i < sp.Bulk; i++ {
				set[w.NextNum()] = 7*i + 3
			}
			set[cat] = pdfw.Dict{{"Type", pdfw.Name("Catalog")}, {"Pages", pdfw.Ref{Num: pgs}}}
			set[pgs] = pdfw.Dict{{"Type", pdfw.Name("Pages")}, {"Kids", pdfw.Arr{}}, {"Count", 0}}
		}
		for _, br := range rp.BulkRanges {
			for i := 0; i < br[1] && br[0]+i < sp.Bulk; i++ {
				set[sp.N+3+br[0]+i] = 7*(br[0]+i) + 3 + 1000000*rev
			}
		}
		vr := r.Split("rev" + strconv.Itoa(rev))
		for _, op := range rp.Ops {
			if op.Del {
				free = append(free, op.Num)
				continue
			}
			set[op.Num] = makeValue(w, sp, rev, op, vr, set, inStm, rp.LenInStm)
			inStm[op.Num] = op.InStm
		}
		rs := pdfw.RevSpec{Set: set, Free: free, XRefStream: rp.Stream, InObjStm: inStm, ObjStms: rp.Conts, ObjStmFlate: rp.StmZ,
			XRefFlate: rp.XRefZ, Shuffle: rp.Shuffle, NoHead: rp.NoHead, TableAfterStream: true, ForwardPrev: rp.Forward}
		if rp.Repack {
			rs.RepackOld = w.OldestContainer()
		}
		commits = append(commits, append([]byte{}, w.Commit(rs)...))
	}
	return w.Built(), commits
}

// ---- comparing tabula objects with the writer's record ----

func equalCore(got core.Object, want pdfw.Obj, deep func(pdfw.Ref) (pdfw.Obj, bool)) bool {
	switch w := want.(type) {
	case nil:
		_, ok := got.(core.Null)
		return ok
	case bool:
		g, ok := got.(core.Bool)
		return ok && bool(g) == w
	case int:
		g, ok := got.(core.Int)
		return ok && int(g) == w
	case pdfw.Real:
		g, ok := got.(core.Real)
		return ok && math.Abs(float64(g)-float64(w)) < 1e-9
	case pdfw.Name:
		g, ok := got.(core.Name)
		return ok && string(g) == string(w)
	case pdfw.Str:
		g, ok := got.(core.String)
		return ok && string(g) == string(w.B)
	case pdfw.Ref:
		if deep != nil {
			if target, ok := deep(w); ok {
				return equalCore(got, target, deep)
			}
		}
		g, ok := got.(core.IndirectRef)
		return ok && g.Number == w.Num
	case pdfw.Arr:
		g, ok := got.(core.Array)
		if !ok || len(g) != len(w) {
			return false
		}
		for i := range w {
			if !equalCore(g[i], w[i], deep) {
				return false
			}
		}
		return true
	case pdfw.Dict:
		g, ok := got.(core.Dict)
		if !ok || len(g) != len(w) {
			return false
		}
		for _, kv := range w {
			gv, ok := g[kv.K]
			if !ok || !equalCore(gv, kv.V, deep) {
				return false
			}
		}
		return true
	case *pdfw.Stream:
		g, ok := got.(*core.Stream)
		if !ok {
			return false
		}
		for _, kv := range w.Dict {
			gv, ok := g.Dict[kv.K]
			if !ok || !equalCore(gv, kv.V, deep) {
				return false
			}
		}
		if !bytes.Equal(g.Data, w.Raw) {
			return false
		}
		dec, err := g.Decode()
		return err == nil && bytes.Equal(dec, w.Plain)
	}
	return false
}

// simObjectReader stands between resolver.ObjectResolver and the reader and
// fails the n-th lookup once.
type simObjectReader struct {
	r      *reader.Reader
	calls  int
	failAt int
	fired  bool
}

var errInjected = errors.New("simulated object source: injected lookup failure")

func (s *simObjectReader) GetObject(n int) (core.Object, error) {
	s.calls++
	if s.failAt > 0 && s.calls == s.failAt {
		s.fired = true
		return nil, errInjected
	}
	return s.r.GetObject(n)
}

func (s *simObjectReader) ResolveReference(ref core.IndirectRef) (core.Object, error) {
	s.calls++
	if s.failAt > 0 && s.calls == s.failAt {
		s.fired = true
		return nil, errInjected
	}
	return s.r.ResolveReference(ref)
}

func describe(e pdfw.Entry, present bool) string {
	switch {
	case !present:
		return "never defined"
	case e.Free:
		return fmt.Sprintf("free since revision %d", e.Rev)
	case e.Aux != "":
		return "the writer's " + e.Aux + " stream of revision " + strconv.Itoa(e.Rev)
	}
	where := "stored plainly"
	if e.InStm != 0 {
		where = "in object stream " + strconv.Itoa(e.InStm)
	}
	return fmt.Sprintf("value written in revision %d, %s: %s", e.Rev, where, trimS(string(pdfw.Serialise(stripStream(e.Value), pdfw.Style{EOL: "\n"}, sim.NewRand(1))), 120))
}

func stripStream(o pdfw.Obj) pdfw.Obj {
	if s, ok := o.(*pdfw.Stream); ok {
		return append(pdfw.Dict{{"<stream-bytes>", len(s.Plain)}}, s.Dict...)
	}
	return o
}

func trimS(s string, n int) string {
	if len(s) > n {
		return s[:n] + "..."
	}
	return s
}

func (p *Prop) Execute(c *sim.Case, env *sim.Env) *sim.Result {
	var sp Spec
	c.GetSpec(&sp)
	res := &sim.Result{Status: "ok"}
	built, commits, misdirected := buildCase(&sp)
	hooked := misdirected
	if misdirected {
		res.Count("fault.xref-misdirect.injected", 1)
	}
	if img, ok := c.Images["pdf"]; ok {
		commits = nil
		last := 0
		for _, e := range built.RevEnd {
			if e > len(img) {
				e = len(img)
			}
			commits = append(commits, img[last:e])
			last = e
		}
	}
	t := zzsimrt.NewTask(0, 0)
	zzsimrt.Enter(t)
	defer zzsimrt.Leave()
	path := env.Disk.PutNamed("c04.pdf", nil)
	var failClass, failDetail string
	fail := func(class, detail string) {
		if failClass == "" {
			failClass, failDetail = class, detail
		}
	}
	feats := features(&sp)
	steps := 0
	states := map[string]bool{}
	for rev := range commits {
		env.Disk.Append(path, commits[rev])
		model := built.Model[rev]
		deepModel := func(rf pdfw.Ref) (pdfw.Obj, bool) {
			e, ok := model[rf.Num]
			if !ok || e.Free || e.Aux != "" {
				return nil, false
			}
			return e.Value, true
		}
		// unclean: the references reachable from object num lead to a free or missing object
		// or back to an object already on the path; what a deep resolution makes of that is
		// not judged (only that later answers are unaffected)
		var unclean func(o pdfw.Obj, path map[int]bool) bool
		unclean = func(o pdfw.Obj, path map[int]bool) bool {
			switch v := o.(type) {
			case pdfw.Ref:
				e, ok := model[v.Num]
				if !ok || e.Free || path[v.Num] {
					return true
				}
				if md := sp.Misdirect; md != nil && rev >= md.Rev && v.Num == md.A && len(path) > 0 {
					return true // the object behind the damaged entry, reached through a reference
				}
				if e.Aux != "" {
					return false
				}
				path[v.Num] = true
				u := unclean(e.Value, path)
				delete(path, v.Num)
				return u
			case pdfw.Arr:
				for _, x := range v {
					if unclean(x, path) {
						return true
					}
				}
			case pdfw.Dict:
				for _, kv := range v {
					if unclean(kv.V, path) {
						return true
					}
				}
			case *pdfw.Stream:
				return unclean(v.Dict, path)
			}
			return false
		}
		var rd *reader.Reader
		open := func() bool {
			oc := sim.Guard(t, 50_000_000, func() error { var err error; rd, err = reader.Open(path); return err })
			if oc.Kind != "ok" {
				fail("open:"+oc.Kind, fmt.Sprintf("rev %d: reader.Open: %s %s", rev, oc.Where, oc.Msg))
				rd = nil
				return false
			}
			return true
		}
		if !open() {
			break
		}
		lastOp := "open"
		var soLive *simObjectReader
		var rsLive *resolver.ObjectResolver
		if rev < len(sp.History) {
			for si, st := range sp.History[rev] {
				if failClass != "" {
					break
				}
				steps++
				res.Count("step."+st.Op, 1)
				e, present := model[st.Num]
				wantErr := !present || e.Free
				where := fmt.Sprintf("rev %d step %d %s(%d) after %s", rev, si, st.Op, st.Num, lastOp)
				states[fmt.Sprintf("%s>%s:%v:%v:%d", lastOp, st.Op, present, e.Free, e.InStm)] = true
				damaged := sp.Misdirect != nil && rev >= sp.Misdirect.Rev && st.Num == sp.Misdirect.A
				uncleanDeep := present && !e.Free && e.Aux == "" && unclean(pdfw.Ref{Num: st.Num}, map[int]bool{})
				check := func(got core.Object, err error, deep bool) {
					if deep && uncleanDeep {
						res.Count("deep.closure_unclean_not_judged", 1)
						return
					}
					if damaged {
						res.Count("fault.xref-misdirect.fired", 1)
						if err != nil {
							return // the damaged entry may fail; it must not yield another object's data (checked below)
						}
					}
					switch {
					case wantErr && err == nil:
						fail(st.Op+":no-error", fmt.Sprintf("%s: object %d is %s, but the lookup returned %s", where, st.Num, describe(e, present), trimS(fmt.Sprint(got), 100)))
					case !wantErr && err != nil:
						fail(st.Op+":error", fmt.Sprintf("%s: object %d is %s, but the lookup failed: %v", where, st.Num, describe(e, present), err))
					case !wantErr && e.Aux != "":
						s, ok := got.(*core.Stream)
						tn, _ := core.Object(nil).(core.Name)
						if ok {
							tn, _ = s.Dict.Get("Type").(core.Name)
						}
						if !ok || string(tn) != e.Aux {
							fail(st.Op+":wrong-value", fmt.Sprintf("%s: expected %s, got %s", where, describe(e, present), trimS(fmt.Sprint(got), 100)))
						} else if as := e.AuxStream; as != nil && as.Raw != nil && !hooked {
							// the container is an object like any other: its stored bytes and what they
							// decode to must be what the writer put there, whatever was looked up before
							if !bytes.Equal(s.Data, as.Raw) {
								fail(st.Op+":wrong-value", fmt.Sprintf("%s: %s: the stream holds %d bytes of data, the file has %d", where, describe(e, present), len(s.Data), len(as.Raw)))
							} else if dec, derr := s.Decode(); derr != nil || !bytes.Equal(dec, as.Plain) {
								fail(st.Op+":wrong-value", fmt.Sprintf("%s: %s: the stream does not decode to the payload that was written (%v)", where, describe(e, present), derr))
							}
						}
					case !wantErr:
						var d func(pdfw.Ref) (pdfw.Obj, bool)
						if deep {
							d = deepModel
						}
						if !equalCore(got, e.Value, d) {
							fail(st.Op+":wrong-value", fmt.Sprintf("%s: expected the %s\n  got: %s", where, describe(e, present), trimS(fmt.Sprint(got), 160)))
						}
					}
				}
				var got core.Object
				var err error
				switch st.Op {
				case "get":
					oc := sim.Guard(t, 50_000_000, func() error { got, err = rd.GetObject(st.Num); return nil })
					if oc.Bad() {
						fail("get:"+oc.Kind, where+": "+oc.Class()+" "+oc.Msg)
						break
					}
					check(got, err, false)
				case "resolve":
					oc := sim.Guard(t, 50_000_000, func() error {
						got, err = rd.Resolve(core.IndirectRef{Number: st.Num, Generation: e.Gen})
						return nil
					})
					if oc.Bad() {
						fail("resolve:"+oc.Kind, where+": "+oc.Class()+" "+oc.Msg)
						break
					}
					check(got, err, false)
				case "deep":
					oc := sim.Guard(t, 50_000_000, func() error {
						got, err = rd.ResolveDeep(core.IndirectRef{Number: st.Num, Generation: e.Gen})
						return nil
					})
					if oc.Bad() {
						fail("deep:"+oc.Kind, where+": "+oc.Class()+" "+oc.Msg)
						break
					}
					if _, isStream := e.Value.(*pdfw.Stream); isStream {
						check(got, err, false) // reader.ResolveDeep leaves streams as they are
					} else {
						check(got, err, true)
					}
				case "xref":
					ent, ok := rd.XRefTable().Get(st.Num)
					switch {
					case !present && ok && st.Num != 0:
						fail("xref:phantom", fmt.Sprintf("%s: the merged table has an entry for a number no revision defines", where))
					case present && !ok:
						fail("xref:missing", fmt.Sprintf("%s: no entry, expected %s", where, describe(e, present)))
					case present && ok && ent.InUse == e.Free:
						fail("xref:wrong-state", fmt.Sprintf("%s: InUse=%v, expected %s", where, ent.InUse, describe(e, present)))
					case present && ok && !e.Free && e.Aux == "" && (ent.Type == core.XRefEntryCompressed) != (e.InStm != 0):
						fail("xref:wrong-kind", fmt.Sprintf("%s: entry type %v, expected %s", where, ent.Type, describe(e, present)))
					}
				case "rshallow":
					// the long-lived resolver, shallow: references inside the value stay references
					if rsLive == nil || soLive.r != rd {
						soLive = &simObjectReader{r: rd}
						rsLive = resolver.NewResolver(soLive)
					}
					soLive.calls, soLive.failAt, soLive.fired = 0, 0, false
					oc := sim.Guard(t, 50_000_000, func() error {
						if st.Num%2 == 0 {
							got, err = rsLive.GetObjectResolved(st.Num)
						} else {
							got, err = rsLive.Resolve(core.IndirectRef{Number: st.Num, Generation: e.Gen})
						}
						return nil
					})
					if oc.Bad() {
						fail("rshallow:"+oc.Kind, where+": "+oc.Class()+" "+oc.Msg)
						break
					}
					check(got, err, false)
				case "rget":
					// one resolver per reader, kept across the steps of the history (whatever it
					// remembers must not change later answers)
					if rsLive == nil || soLive.r != rd {
						soLive = &simObjectReader{r: rd}
						rsLive = resolver.NewResolver(soLive)
					}
					so, rs := soLive, rsLive
					so.calls, so.failAt, so.fired = 0, st.Fail, false
					deepCall := func() {
						if st.Num%2 == 0 {
							got, err = rs.GetObjectResolvedDeep(st.Num)
						} else {
							got, err = rs.ResolveDeep(core.IndirectRef{Number: st.Num, Generation: e.Gen})
						}
					}
					oc := sim.Guard(t, 50_000_000, func() error { deepCall(); return nil })
					if oc.Bad() {
						fail("rget:"+oc.Kind, where+": "+oc.Class()+" "+oc.Msg)
						break
					}
					if so.fired {
						res.Count("fault.lookup_failed.fired", 1)
						// the faulted step may fail, never return a wrong value
						if err == nil {
							check(got, err, true)
						}
						// and the resolver must not stay poisoned: the same question again, fault-free
						so.failAt = 0
						oc2 := sim.Guard(t, 50_000_000, func() error { deepCall(); return nil })
						if oc2.Bad() {
							fail("rget:"+oc2.Kind, where+" (retry): "+oc2.Class())
							break
						}
					}
					if _, isStream := e.Value.(*pdfw.Stream); isStream && err == nil {
						// the resolver rebuilds streams; compare dictionary and data through the same route
						check(got, err, true)
					} else {
						check(got, err, true)
					}
				case "glitch":
					// the file is empty while this lookup runs, and whole again afterwards (same
					// inode, the reader keeps its descriptor): the lookup may fail, it must not
					// return another value, and nothing it leaves behind may change later answers
					whole, rerr := os.ReadFile(path)
					if rerr != nil {
						break
					}
					os.Truncate(path, 0)
					oc := sim.Guard(t, 50_000_000, func() error { got, err = rd.GetObject(st.Num); return nil })
					if f, werr := os.OpenFile(path, os.O_WRONLY, 0); werr == nil {
						f.Write(whole)
						f.Close()
					}
					res.Count("fault.file-empty-during-lookup.injected", 1)
					if oc.Bad() {
						fail("glitch:"+oc.Kind, where+": "+oc.Class()+" "+oc.Msg)
						break
					}
					if err != nil {
						res.Count("fault.file-empty-during-lookup.fired", 1)
					} else {
						check(got, err, false)
					}
				case "clearcache":
					rd.ClearCache()
				case "reopen":
					rd.Close()
					if !open() {
						break
					}
				}
				lastOp = st.Op
			}
		}
		if rd != nil {
			rd.Close()
		}
		if failClass != "" {
			break
		}
	}
	res.Steps = t.Total
	res.Features = feats
	res.Count("lookups", int64(steps))
	res.Count("revisions", int64(len(commits)))
	res.Count("abstract_states", int64(len(states)))
	res.Fingerprint = planShape(&sp)
	res.Nontrivial = len(sp.Revs) > 1 || len(feats) > 0
	res.Sample = map[string]interface{}{"n": sp.N, "revs": sp.Revs, "history_rev0": first(sp.History, 6), "mode": c.Mode}
	if env.LogEvents {
		res.Log = append(res.Log, fmt.Sprintf("steps=%d total=%d states=%d", steps, t.Total, len(states)))
	}
	if failClass != "" {
		res.Status = "violation"
		res.Class = failClass
		res.Detail = failDetail + "\n  features: " + strings.Join(feats, ", ")
	}
	return res
}

func first(h [][]LStep, n int) []LStep {
	if len(h) == 0 {
		return nil
	}
	if len(h[0]) > n {
		return h[0][:n]
	}
	return h[0]
}

func planShape(sp *Spec) string {
	var b strings.Builder
	for _, rp := range sp.Revs {
		if rp.Stream {
			b.WriteByte('S')
		} else {
			b.WriteByte('T')
		}
		for _, op := range rp.Ops {
			switch {
			case op.Del:
				fmt.Fprintf(&b, "d%d", op.Num)
			case op.InStm:
				fmt.Fprintf(&b, "c%d.%d", op.Num, op.Kind)
			default:
				fmt.Fprintf(&b, "p%d.%d", op.Num, op.Kind)
			}
		}
		if rp.Repack {
			b.WriteByte('R')
		}
		b.WriteByte('/')
	}
	for _, h := range sp.History {
		for _, s := range h {
			b.WriteString(s.Op[:2])
			b.WriteString(strconv.Itoa(s.Num))
		}
		b.WriteByte('/')
	}
	return b.String()
}

func features(sp *Spec) []string {
	var f []string
	add := func(c bool, s string) {
		if c {
			for _, x := range f {
				if x == s {
					return
				}
			}
			f = append(f, s)
		}
	}
	anyS, anyT := false, false
	for i, rp := range sp.Revs {
		if rp.Stream {
			anyS = true
		} else {
			anyT = true
		}
		add(rp.Repack && rp.Stream && i > 0, "repack")
		for _, op := range rp.Ops {
			add(op.Del, "delete")
			add(!op.Del && op.InStm && rp.Stream, "objstm")
			add(!op.Del && op.Kind >= 7, "len=indirect")
			add(!op.Del && op.Kind == 8 && rp.LenInStm && rp.Stream, "len=in-objstm")
			add(!op.Del && op.Kind >= 6, "stream-object")
		}
	}
	add(len(sp.Revs) > 0 && sp.Revs[0].Forward, "xref=forward-prev")
	add(sp.Bulk > 0, "bulk")
	add(sp.Bulk > 0 && sp.EOL == 1, "bulk+crlf")
	add(anyS, "xref=stream")
	add(anyS && anyT, "xref=mixed")
	add(len(sp.Revs) > 1, "revisions")
	add(sp.EOL == 1, "eol=crlf")
	add(sp.EOL == 2, "eol=cr")
	add(sp.Tight, "ws=tight")
	for _, h := range sp.History {
		for _, s := range h {
			add(s.Op == "clearcache", "hist=clearcache")
			add(s.Op == "reopen", "hist=reopen")
			add(s.Op == "rget" || s.Op == "rshallow", "hist=resolver")
			add(s.Fail > 0, "fault=lookup")
		}
	}
	return f
}

func (p *Prop) Shrink(c *sim.Case) []*sim.Case {
	var sp Spec
	c.GetSpec(&sp)
	var out []*sim.Case
	cp := func() Spec {
		s := sp
		s.Revs = make([]RevPlan, len(sp.Revs))
		for i := range sp.Revs {
			s.Revs[i] = sp.Revs[i]
			s.Revs[i].Ops = append([]ObjOp{}, sp.Revs[i].Ops...)
		}
		s.History = make([][]LStep, len(sp.History))
		for i := range sp.History {
			s.History[i] = append([]LStep{}, sp.History[i]...)
		}
		return s
	}
	emit := func(s Spec) {
		n := *c
		n.Images = nil
		n.SetSpec(s)
		out = append(out, &n)
	}
	// histories
	for rev := range sp.History {
		n := len(sp.History[rev])
		if n > 1 {
			s := cp()
			s.History[rev] = s.History[rev][n-1:]
			emit(s)
			s = cp()
			s.History[rev] = s.History[rev][n/2:]
			emit(s)
			s = cp()
			s.History[rev] = s.History[rev][:n/2]
			emit(s)
		}
		if n > 0 {
			s := cp()
			s.History[rev] = nil
			emit(s)
		}
	}
	for rev := range sp.History {
		if len(sp.History[rev]) <= 14 {
			for i := range sp.History[rev] {
				s := cp()
				s.History[rev] = append(s.History[rev][:i], s.History[rev][i+1:]...)
				emit(s)
			}
		}
	}
	// drop the last revision (its history moves to the previous one)
	if len(sp.Revs) > 1 {
		s := cp()
		last := len(s.Revs) - 1
		s.Revs = s.Revs[:last]
		if len(s.History) > last {
			s.History = s.History[:last]
		}
		emit(s)
		// drop the first update instead
		s = cp()
		s.Revs = append(s.Revs[:1], s.Revs[2:]...)
		if len(s.History) > 1 {
			s.History = append(s.History[:1], s.History[2:]...)
		}
		emit(s)
	}
	// drop single object operations, simplify them
	for rev := range sp.Revs {
		for i, op := range sp.Revs[rev].Ops {
			s := cp()
			s.Revs[rev].Ops = append(s.Revs[rev].Ops[:i], s.Revs[rev].Ops[i+1:]...)
			emit(s)
			if !op.Del && op.Kind != 0 {
				s = cp()
				s.Revs[rev].Ops[i].Kind = 0
				emit(s)
				if op.Kind > 6 {
					s = cp()
					s.Revs[rev].Ops[i].Kind = 6
					emit(s)
				}
			}
			if op.InStm {
				s = cp()
				s.Revs[rev].Ops[i].InStm = false
				emit(s)
			}
		}
		rp := sp.Revs[rev]
		if rp.Repack {
			s := cp()
			s.Revs[rev].Repack = false
			emit(s)
		}
		if rp.StmZ || rp.XRefZ != 0 || rp.Shuffle != 0 || rp.Conts > 1 || rp.LenInStm {
			s := cp()
			s.Revs[rev].StmZ, s.Revs[rev].XRefZ, s.Revs[rev].Shuffle, s.Revs[rev].Conts, s.Revs[rev].LenInStm = false, 0, 0, 1, false
			emit(s)
		}
	}
	// all tables
	anyS := false
	for _, rp := range sp.Revs {
		anyS = anyS || rp.Stream
	}
	if anyS {
		s := cp()
		for i := range s.Revs {
			s.Revs[i].Stream = false
		}
		emit(s)
		s = cp()
		for i := range s.Revs {
			s.Revs[i].Stream = true
		}
		emit(s)
	}
	if sp.EOL != 0 || sp.Tight {
		s := cp()
		s.EOL, s.Tight = 0, false
		emit(s)
	}
	for rev := range sp.History {
		for i, st := range sp.History[rev] {
			if st.Fail > 0 {
				s := cp()
				s.History[rev][i].Fail = 0
				emit(s)
			}
		}
	}
	return out
}

func (p *Prop) Finalise(c *sim.Case, env *sim.Env) {
	var sp Spec
	c.GetSpec(&sp)
	b, _, _ := buildCase(&sp)
	if c.Images == nil {
		c.Images = map[string][]byte{}
	}
	c.Images["pdf"] = b.Bytes
}

func (p *Prop) Probes(env *sim.Env) []*sim.Case { return nil }
