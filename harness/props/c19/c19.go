// Package c19 decides property C19 (HTML extraction keeps content; navigation
// filtering only narrows) as far as simulation applies: htmldoc.Reader keeps a
// per-mode cache and hands out its element slices by reference, so an answer can
// depend on the query history; and two of the entry points read from an
// io.Reader, which the simulator chunks and fails.
package c19

import (
	"bytes"
	"fmt"
	"regexp"
	"strconv"
	"strings"

	"github.com/tsawler/tabula"
	"github.com/tsawler/tabula/epubdoc"
	"github.com/tsawler/tabula/htmldoc"
	"github.com/tsawler/tabula/rag"
	"github.com/tsawler/tabula/zzharness/faults"
	"github.com/tsawler/tabula/zzharness/officew"
	"github.com/tsawler/tabula/zzharness/sim"
	"github.com/tsawler/tabula/zzsimrt"
)

type Query struct {
	Op   string `json:"op"`   // text markdown document ragmd
	Mode int    `json:"mode"` // 0 none 1 explicit 2 standard 3 aggressive
	Flags int   `json:"flags,omitempty"` // 1 IncludeLinks, 2 IncludeMetadata, 4 ExcludeHeaders, 8 ExcludeFooters
}

type Spec struct {
	Seed    uint64  `json:"seed"`
	Nodes   int     `json:"nodes"`
	Entry   string  `json:"entry"` // file reader string epub
	History []Query `json:"history"`
	ChunkSeed uint64 `json:"chunk_seed,omitempty"`
	FailAt  int     `json:"fail_at"` // reader entry: inject a read error at this byte (-1 never)
	MapSeed uint64  `json:"map_seed,omitempty"`
}

type Prop struct{}

func New() *Prop        { return &Prop{} }
func (*Prop) ID() string { return "C19" }

// ---- DOM generator with a model ----

type leaf struct {
	token string // unique marker
	safe  bool   // outside every subtree that any mode could exclude
	linky bool   // the text is (mostly) inside links
	inNav bool   // inside <nav>, <aside>, role=navigation or role=complementary: excluded by every mode but None
}

type page struct {
	html   string
	leaves []leaf // in document order (content leaves only)
}

var exclVocab = []string{"nav", "navbar", "navigation", "menu", "sidebar", "footer", "header", "breadcrumb", "site-footer", "main-nav", "widget", "social", "share", "related", "comments", "advert", "cookie-banner"}
var nearVocab = []string{"navy", "menuhin", "canvas", "footnote-text", "headline", "content", "article-body", "story", "sidecar", "navel"}

type gen struct {
	deep     bool // this page has lists nested ten and more levels deep
	navDepth int
	r      *sim.Rand
	b      strings.Builder
	leaves []leaf
	n      int
	budget int
}

// vocab picks a name from the exclusion vocabulary, sometimes spelled the way style sheets
// spell it: upper case, capitalised, camel case.
func (g *gen) vocab() string {
	name := sim.Pick(g.r, exclVocab)
	switch g.r.Intn(8) {
	case 0:
		return strings.ToUpper(name)
	case 1:
		return strings.ToUpper(name[:1]) + name[1:]
	case 2:
		var b strings.Builder
		for i, c := range name {
			if i%4 == 0 && c >= 'a' && c <= 'z' {
				c -= 32
			}
			b.WriteRune(c)
		}
		return b.String()
	}
	return name
}

func (g *gen) tok() string {
	g.n++
	return "w" + strconv.Itoa(g.n) + "q"
}

var fillers = []string{"alpha", "bravo &amp; charlie", "delta &lt;tag&gt;", "caf&eacute;", "&#8212; dash", "&#x4e2d;&#x6587;", "x &quot;y&quot;", "plain words here",
	"raw café crème", "中文字符 и кириллица", "emoji 😀 𝔘", "pipe a|b c", "line one<br>line two", "tab\there"}

func (g *gen) text(safe bool, linky bool) string {
	t := g.tok()
	g.leaves = append(g.leaves, leaf{token: t, safe: safe, linky: linky, inNav: g.navDepth > 0})
	s := t + " " + sim.Pick(g.r, fillers)
	if linky {
		return "<a href=\"/l" + strconv.Itoa(g.n) + "\">" + s + "</a>"
	}
	if g.r.Pct(15) {
		s += " <b>bold</b> <i>it</i>"
	}
	if g.r.Pct(10) {
		s += " <a href=\"#\">ln</a>"
	}
	return s
}

// content writes n content elements; safe says whether we are outside every candidate subtree.
func (g *gen) content(n int, safe bool, depth int, linky bool) {
	for i := 0; i < n && g.budget > 0; i++ {
		g.budget--
		switch g.r.Intn(12) {
		case 0:
			lv := 1 + g.r.Intn(6)
			fmt.Fprintf(&g.b, "<h%d>%s</h%d>", lv, g.text(safe, false), lv)
		case 1:
			g.list(safe, depth, 0, linky)
		case 2:
			g.table(safe)
		case 3:
			fmt.Fprintf(&g.b, "<pre><code>%s</code></pre>", g.text(safe, false))
		case 4:
			fmt.Fprintf(&g.b, "<blockquote><p>%s</p></blockquote>", g.text(safe, false))
		case 5:
			g.b.WriteString("<script>var s = \"SCRIPTMARK <p>no</p>\";</script><style>.x{content:\"STYLEMARK\"}</style>")
		case 6:
			if depth < 8 {
				g.container(safe, depth)
			}
		case 7:
			// unclosed paragraph / stray end tag: the parser must still keep the text
			fmt.Fprintf(&g.b, "<p>%s", g.text(safe, linky))
			if g.r.Bool() {
				g.b.WriteString("</span>")
			}
		default:
			fmt.Fprintf(&g.b, "<p>%s</p>", g.text(safe, linky))
		}
	}
}

func (g *gen) list(safe bool, depth, lvl int, linky bool) {
	tag := sim.Pick(g.r, []string{"ul", "ol"})
	g.b.WriteString("<" + tag + ">")
	listStart := len(g.leaves)
	// a list is itself a link-density candidate: link text anywhere inside it (a <nav> in an
	// item) means none of its texts counts as "outside every candidate subtree"
	defer func() { g.demoteIfLinky(listStart) }()
	listSafe := safe
	for k, m := 0, 1+g.r.Intn(4); k < m; k++ {
		// an item may itself be an exclusion candidate (a class or id from the vocabulary on
		// the <li>), or hold one (a <nav> / <aside> inside the item): what is excluded then
		// lies inside a list, and the number of top-level elements does not change
		safe := listSafe
		navItem := false
		switch {
		case g.r.Pct(8):
			g.b.WriteString("<li " + sim.Pick(g.r, []string{"class", "id"}) + "=\"" + g.vocab() + "\">")
			safe = false
		case g.r.Pct(4):
			g.b.WriteString("<li role=\"" + sim.Pick(g.r, []string{"navigation", "complementary"}) + "\">")
			safe, navItem = false, true
			g.navDepth++
		default:
			g.b.WriteString("<li>")
		}
		g.b.WriteString(g.text(safe, linky))
		if g.r.Pct(8) {
			// script / style / noscript as a direct child of the item: never content
			g.b.WriteString(sim.Pick(g.r, []string{"<script>var li = \"SCRIPTMARK\";</script>", "<style>li{content:\"STYLEMARK\"}</style>", "<noscript>SCRIPTMARK fallback</noscript>"}))
		}
		if g.r.Pct(14) {
			// a block element directly inside the item
			switch g.r.Intn(4) {
			case 0:
				g.b.WriteString("<pre>" + g.text(safe, false) + "</pre>")
			case 1:
				g.b.WriteString("<h4>" + g.text(safe, false) + "</h4>")
			case 2:
				// (an item's text is taken as a whole, so a <nav> inside it is not judged
				// by the explicit-exclusion oracle: the text is flagged neither way)
				tag := sim.Pick(g.r, []string{"nav", "aside"})
				save := g.navDepth
				g.navDepth = 0
				g.b.WriteString("<" + tag + "><p>" + g.text(false, g.r.Bool()) + "</p></" + tag + ">")
				g.navDepth = save
			default:
				g.b.WriteString("<section><p>" + g.text(safe, false) + "</p></section>")
			}
		}
		if (lvl < 3 && g.r.Pct(25)) || (g.deep && lvl < 11 && k == 0) {
			g.list(safe, depth, lvl+1, linky)
		}
		if navItem {
			g.navDepth--
		}
		g.b.WriteString("</li>")
		if lvl < 3 && g.r.Pct(12) {
			// a list as a direct child of a list (no <li> around it): not valid, but common and
			// accepted by every parser; items before and after it must survive
			g.list(safe, depth, lvl+1, linky)
		}
	}
	g.b.WriteString("</" + tag + ">")
}

func (g *gen) table(safe bool) {
	rows, cols := 1+g.r.Intn(3), 1+g.r.Intn(3)
	// row groups: none (the parser supplies one <tbody>), the usual head-then-body, or any
	// sequence of <thead> / <tbody> / <tfoot> sections, repeated and in any order - cells
	// are content wherever their row group sits, and document order is source order
	grouping := g.r.Intn(4)
	if grouping == 3 {
		rows += g.r.Intn(3)
	}
	group := func(y int) string {
		switch grouping {
		case 1:
			if y == 0 {
				return "thead"
			}
			return "tbody"
		case 2, 3:
			return sim.Pick(g.r, []string{"thead", "tbody", "tbody", "tfoot"})
		}
		return ""
	}
	g.b.WriteString("<table>")
	open := ""
	for y := 0; y < rows; y++ {
		if sec := group(y); sec != open || (sec != "" && grouping == 3 && g.r.Pct(30)) {
			if open != "" {
				g.b.WriteString("</" + open + ">")
			}
			if sec != "" {
				g.b.WriteString("<" + sec + ">")
			}
			open = sec
		}
		g.b.WriteString("<tr>")
		for x := 0; x < cols; x++ {
			tag := "td"
			if (y == 0 || open == "thead") && g.r.Bool() {
				tag = "th"
			}
			attr := ""
			if g.r.Pct(15) {
				attr = fmt.Sprintf(" colspan=\"%d\"", 1+g.r.Intn(3))
			}
			if g.r.Pct(10) {
				attr += fmt.Sprintf(" rowspan=\"%d\"", 1+g.r.Intn(3))
			}
			fmt.Fprintf(&g.b, "<%s%s>%s</%s>", tag, attr, g.text(safe, false), tag)
		}
		g.b.WriteString("</tr>")
	}
	if open != "" {
		g.b.WriteString("</" + open + ">")
	}
	g.b.WriteString("</table>")
}

// container opens a wrapper; anything with a semantic tag, role, class or id is a
// candidate for exclusion in some mode, and so is a link-dense block.
func (g *gen) container(safe bool, depth int) {
	n := 1 + g.r.Intn(4)
	switch g.r.Intn(10) {
	case 0, 1, 2:
		// neutral wrapper: no attributes
		tag := sim.Pick(g.r, []string{"div", "section"})
		g.b.WriteString("<" + tag + ">")
		start := len(g.leaves)
		g.content(n, safe, depth+1, false)
		g.b.WriteString("</" + tag + ">")
		g.demoteIfLinky(start)
	case 3:
		tag := sim.Pick(g.r, []string{"nav", "aside", "header", "footer"})
		isNav := tag == "nav" || tag == "aside"
		// <header> / <footer> are only excluded at the top level (children of <body> or of a
		// single wrapper); our <body> always has several element children, so one that sits
		// inside some <div> is ordinary content
		nestedHF := !isNav && depth >= 1 && safe
		// sometimes inside a div that also has text of its own (no element around it)
		bare := g.r.Pct(30)
		if bare {
			g.b.WriteString("<div>loose words before ")
		}
		g.b.WriteString("<" + tag + ">")
		if isNav {
			g.navDepth++
		}
		if nestedHF {
			g.content(n, true, depth+1, false)
		} else {
			g.content(n, false, depth+1, g.r.Bool())
		}
		if isNav {
			g.navDepth--
		}
		g.b.WriteString("</" + tag + ">")
		if bare {
			g.b.WriteString(" loose words after</div>")
		}
	case 4:
		role := sim.Pick(g.r, []string{"navigation", "complementary", "banner", "contentinfo", "main", "search"})
		isNav := role == "navigation" || role == "complementary"
		g.b.WriteString("<div role=\"" + role + "\">")
		if isNav {
			g.navDepth++
		}
		g.content(n, false, depth+1, false)
		if isNav {
			g.navDepth--
		}
		g.b.WriteString("</div>")
	case 5, 6:
		name := g.vocab()
		attr := sim.Pick(g.r, []string{"class", "id"})
		g.b.WriteString("<div " + attr + "=\"" + name + "\">")
		g.content(n, false, depth+1, g.r.Pct(30))
		g.b.WriteString("</div>")
	case 7:
		name := sim.Pick(g.r, nearVocab)
		g.b.WriteString("<div class=\"" + name + " x" + strconv.Itoa(g.r.Intn(9)) + "\">")
		g.content(n, false, depth+1, false)
		g.b.WriteString("</div>")
	default:
		// link-dense block: many links, little other text
		tag := sim.Pick(g.r, []string{"div", "ul", "section"})
		g.b.WriteString("<" + tag + ">")
		for k, m := 0, 4+g.r.Intn(4); k < m; k++ {
			if tag == "ul" {
				g.b.WriteString("<li>" + g.text(false, true) + "</li>")
			} else {
				g.b.WriteString("<p>" + g.text(false, true) + "</p>")
			}
		}
		g.b.WriteString("</" + tag + ">")
	}
}

// demoteIfLinky: a div / section / list that contains link text may itself be
// judged link-dense by the aggressive mode, so nothing inside it counts as
// "outside every candidate subtree".
func (g *gen) demoteIfLinky(start int) {
	any := false
	for _, l := range g.leaves[start:] {
		if l.linky {
			any = true
		}
	}
	if any {
		for i := start; i < len(g.leaves); i++ {
			g.leaves[i].safe = false
		}
	}
}

func makePage(seed uint64, nodes int) *page { return makePageFrom(seed, nodes, 0) }

// makePageFrom numbers its tokens from start+1 (chapters of one book must not share tokens).
func makePageFrom(seed uint64, nodes int, start int) *page {
	g := &gen{r: sim.NewRand(seed), budget: nodes, n: start}
	g.deep = sim.NewRand(seed^0xDEE9).Pct(5)
	g.b.WriteString("<!DOCTYPE html><html><head><title>C19 page</title><style>body{}</style></head><body>")
	if g.r.Pct(12) {
		// the body's only structural child is one wrapper <div> / <main> (scripts and styles
		// beside it do not count), possibly with a class, id or role of its own: a <header> /
		// <footer> directly inside it is at the top level, and a wrapper named like navigation
		// is itself a candidate in the stricter modes - which must still only narrow
		tag := sim.Pick(g.r, []string{"div", "div", "main"})
		attr, inner := "", true
		switch g.r.Intn(4) {
		case 0:
			attr, inner = " "+sim.Pick(g.r, []string{"class", "id"})+"=\""+sim.Pick(g.r, exclVocab)+"\"", false
		case 1:
			attr, inner = " class=\"site has-"+sim.Pick(g.r, exclVocab)+" x\"", false
		case 2:
			attr, inner = " class=\""+sim.Pick(g.r, nearVocab)+"\"", false
		}
		if g.r.Bool() {
			g.b.WriteString("<script>var z = 0;</script>")
		}
		g.b.WriteString("<" + tag + attr + ">")
		first := len(g.leaves)
		if g.r.Bool() {
			g.b.WriteString("<header>")
			g.content(1, false, 2, false)
			g.b.WriteString("</header>")
		}
		// depth 2: a <header> / <footer> further inside is judged neither way
		for g.budget > 0 {
			g.content(3, false, 2, false)
		}
		_ = inner
		if g.r.Bool() {
			g.b.WriteString("<footer>")
			g.content(1, false, 2, false)
			g.b.WriteString("</footer>")
		}
		g.b.WriteString("</" + tag + ">")
		g.demoteIfLinky(first)
		g.b.WriteString("<style>.w{}</style></body></html>")
		return &page{html: g.b.String(), leaves: g.leaves}
	}
	if g.r.Pct(20) {
		// a body made of several plain <div>s only (no single wrapper): a <header> or <footer>
		// directly inside one of them is not at the top level, so it is ordinary content
		k := 2 + g.r.Intn(3)
		for i := 0; i < k; i++ {
			g.b.WriteString("<div>")
			first := len(g.leaves)
			if g.r.Pct(60) {
				tag := sim.Pick(g.r, []string{"header", "footer"})
				g.b.WriteString("<" + tag + "><p>" + g.text(true, false) + "</p></" + tag + ">")
			}
			g.content(sim.MaxInt(1, nodes/(2*k)), true, 1, false)
			g.b.WriteString("</div>")
			g.demoteIfLinky(first)
		}
		g.b.WriteString("<script>var z = 1;</script></body></html>")
		return &page{html: g.b.String(), leaves: g.leaves}
	}
	// a top-level header/footer is a candidate; two structural children avoid the single-wrapper rule being decisive
	if g.r.Bool() {
		g.b.WriteString("<header>")
		g.content(1, false, 1, false)
		g.b.WriteString("</header>")
	}
	// safe content directly under body is still safe: body itself is never excluded; but link-dense
	// detection applies to div/section/ul/ol only, and our safe leaves are mostly not links
	g.content(sim.MaxInt(1, nodes/3), true, 0, false)
	// a paragraph directly in <body>: whatever the draws above produced (possibly only
	// scripts and styles, which the wrapper rule ignores), the <div> below is then never
	// the body's single wrapper, so a <header>/<footer> inside it is ordinary content
	g.b.WriteString("<p>" + g.text(true, false) + "</p>")
	g.b.WriteString("<div>")
	first := len(g.leaves)
	g.content(sim.MaxInt(1, nodes/3), true, 1, false)
	g.b.WriteString("</div>")
	g.demoteIfLinky(first)
	for g.budget > 0 {
		g.content(3, true, 0, false)
	}
	if g.r.Bool() {
		g.b.WriteString("<footer>")
		g.content(1, false, 1, false)
		g.b.WriteString("</footer>")
	}
	g.b.WriteString("</body></html>")
	return &page{html: g.b.String(), leaves: g.leaves}
}

var tokRe = regexp.MustCompile(`w[0-9]+q`)

func tokens(s string) []string { return tokRe.FindAllString(s, -1) }

func isSubsequence(sub, full []string) bool {
	j := 0
	for _, t := range full {
		if j < len(sub) && sub[j] == t {
			j++
		}
	}
	return j == len(sub)
}

func (p *Prop) Generate(base uint64, index int, env *sim.Env) *sim.Case {
	seed := sim.RunSeed(base, "C19", index)
	r := sim.NewRand(seed)
	sp := Spec{Seed: r.Uint64() | 1, Nodes: 3 + r.Intn(118), FailAt: -1}
	sp.Entry = sim.Pick(r, []string{"file", "reader", "reader", "string", "epub"})
	n := 2 + r.Intn(15)
	for i := 0; i < n; i++ {
		q := Query{Op: sim.Pick(r, []string{"text", "text", "markdown", "document", "ragmd"}), Mode: r.Intn(4)}
		if r.Pct(30) {
			// the other switches of the options: whatever they do, an answer depends on the
			// options of that call only
			q.Flags = 1 + r.Intn(15)
		}
		if i > 0 && r.Pct(30) {
			q = sp.History[r.Intn(len(sp.History))] // repeat an earlier query
		}
		sp.History = append(sp.History, q)
	}
	c := &sim.Case{Prop: "C19", Seed: seed, Index: index, Mode: "fault-free"}
	if sp.Entry == "reader" {
		sp.ChunkSeed = r.Uint64() | 1
		if r.Pct(35) {
			c.Mode = "faults"
			sp.FailAt = r.Intn(1 << 16)
		}
	}
	if r.Pct(40) {
		sp.MapSeed = r.Uint64() | 1
	}
	c.SetSpec(sp)
	return c
}

var modes = []htmldoc.NavigationExclusionMode{htmldoc.NavigationExclusionNone, htmldoc.NavigationExclusionExplicit, htmldoc.NavigationExclusionStandard, htmldoc.NavigationExclusionAggressive}
var modeNames = []string{"none", "explicit", "standard", "aggressive"}

func query(rd *htmldoc.Reader, q Query) (string, error) {
	o := htmldoc.ExtractOptions{NavigationExclusion: modes[q.Mode%4], IncludeLinks: q.Flags&1 != 0, IncludeMetadata: q.Flags&2 != 0,
		ExcludeHeaders: q.Flags&4 != 0, ExcludeFooters: q.Flags&8 != 0}
	switch q.Op {
	case "text":
		return rd.TextWithOptions(o)
	case "markdown":
		return rd.MarkdownWithOptions(o)
	case "ragmd":
		return rd.MarkdownWithRAGOptions(o, rag.MarkdownOptions{IncludeTableOfContents: true, HeadingLevelOffset: 1, MaxHeadingLevel: 4})
	default:
		d, err := rd.DocumentWithOptions(o)
		if err != nil || d == nil {
			return "", err
		}
		return sim.Dump(d.Pages), nil
	}
}

func (p *Prop) Execute(c *sim.Case, env *sim.Env) *sim.Result {
	var sp Spec
	c.GetSpec(&sp)
	res := &sim.Result{Status: "ok"}
	t := zzsimrt.NewTask(0, sp.MapSeed)
	zzsimrt.Enter(t)
	defer zzsimrt.Leave()
	pg := makePage(sp.Seed, sp.Nodes)
	if img, ok := c.Images["html"]; ok {
		pg.html = string(img)
	}
	var failClass, failDetail string
	fail := func(class, detail string) {
		if failClass == "" {
			failClass, failDetail = class, detail
		}
	}
	guard := func(what string, f func() error) (sim.Outcome, bool) {
		oc := sim.Guard(t, 500_000_000, f)
		if oc.Bad() {
			fail(what+":"+oc.Kind, oc.Class()+" "+oc.Msg)
			return oc, false
		}
		return oc, true
	}
	done := func() *sim.Result {
		res.Steps = t.Total
		res.Fingerprint = fmt.Sprintf("%s/%d/%d/%v/%d", sp.Entry, sp.Seed%100000, len(sp.History), histShape(sp.History), sp.FailAt)
		res.Nontrivial = len(pg.leaves) > 1 && len(sp.History) > 1
		res.Sample = map[string]interface{}{"entry": sp.Entry, "nodes": sp.Nodes, "leaves": len(pg.leaves), "history": sp.History, "fail_at": sp.FailAt, "html_bytes": len(pg.html)}
		res.Features = []string{"entry=" + sp.Entry}
		res.Count("entry."+sp.Entry, 1)
		if failClass != "" {
			res.Status = "violation"
			res.Class = failClass
			res.Detail = failDetail + fmt.Sprintf("\n  entry=%s nodes=%d history=%v", sp.Entry, sp.Nodes, sp.History)
		}
		return res
	}

	// reference answers: each (op, mode) on a fresh reader built from the string
	ref := map[Query]string{}
	refFor := func(q Query) (string, bool) {
		if v, ok := ref[q]; ok {
			return v, true
		}
		var out string
		oc, ok := guard("reference", func() error {
			rd, err := htmldoc.OpenReader(strings.NewReader(pg.html))
			if err != nil {
				return err
			}
			out, err = query(rd, q)
			return err
		})
		if !ok {
			return "", false
		}
		if oc.Kind != "ok" {
			fail("reference:error", fmt.Sprintf("a fresh reader fails on %s/%s: %s", q.Op, modeNames[q.Mode%4], oc.Msg))
			return "", false
		}
		ref[q] = out
		return out, true
	}

	// ---- relations between the modes (on fresh readers) ----
	var seqs [4][]string
	for m := 0; m < 4; m++ {
		out, ok := refFor(Query{Op: "text", Mode: m})
		if !ok {
			return done()
		}
		seqs[m] = tokens(out)
		if m == 0 {
			// everything once, in document order; no script/style/markup
			var want []string
			for _, l := range pg.leaves {
				want = append(want, l.token)
			}
			if strings.Join(seqs[0], " ") != strings.Join(want, " ") {
				a, b := sim.DiffContext(strings.Join(want, " "), strings.Join(seqs[0], " "))
				fail("none:content", fmt.Sprintf("mode None does not return every content text once, in document order\n  document: %s\n  returned: %s", a, b))
			}
			if strings.Contains(out, "SCRIPTMARK") || strings.Contains(out, "STYLEMARK") {
				fail("none:script-style", "script or style content appears in the extracted text")
			}
			if strings.Contains(out, "&amp;") || strings.Contains(out, "&lt;") || strings.Contains(out, "&eacute;") || strings.Contains(out, "&#") {
				fail("none:entities", "character references are not decoded in the extracted text")
			}
			if strings.Contains(out, "<b>") || strings.Contains(out, "<p") || strings.Contains(out, "<a ") || strings.Contains(out, "</") {
				fail("none:markup", "markup appears in the extracted text")
			}
		} else if !isSubsequence(seqs[m], seqs[m-1]) {
			fail("monotone:"+modeNames[m], fmt.Sprintf("mode %s returns text that mode %s does not, or in another order\n  %s: %v\n  %s: %v", modeNames[m], modeNames[m-1], modeNames[m-1], clip(seqs[m-1]), modeNames[m], clip(seqs[m])))
		}
		have := map[string]bool{}
		for _, tk := range seqs[m] {
			have[tk] = true
		}
		if m > 0 {
			for _, l := range pg.leaves {
				if l.inNav && have[l.token] {
					fail("explicit-leak:"+modeNames[m], fmt.Sprintf("text %s lies inside <nav>, <aside> or a navigation / complementary role, which every mode except None excludes, but mode %s returns it", l.token, modeNames[m]))
					break
				}
			}
		}
		for _, l := range pg.leaves {
			if l.safe && !have[l.token] {
				fail("unexcluded-lost:"+modeNames[m], fmt.Sprintf("text %s lies outside every nav/aside/header/footer, role, class/id and link-dense subtree, but mode %s drops it", l.token, modeNames[m]))
				break
			}
		}
	}
	if failClass != "" {
		return done()
	}

	// ---- the query history on one reader, through the chosen entry point ----
	var rd *htmldoc.Reader
	var ext func() *tabula.Extractor
	switch sp.Entry {
	case "file":
		path := env.Disk.PutNamed("c19.html", []byte(pg.html))
		if _, ok := guard("open", func() error { var err error; rd, err = htmldoc.Open(path); return err }); !ok {
			return done()
		}
		ext = func() *tabula.Extractor { return tabula.Open(path) }
	case "string":
		if _, ok := guard("open", func() error { var err error; rd, err = htmldoc.OpenReader(strings.NewReader(pg.html)); return err }); !ok {
			return done()
		}
		ext = func() *tabula.Extractor { return tabula.FromHTMLString(pg.html) }
	case "reader":
		sr := faults.NewSimReader([]byte(pg.html), sp.ChunkSeed, sp.FailAt)
		var err error
		if _, ok := guard("open", func() error { rd, err = htmldoc.OpenReader(sr); return nil }); !ok {
			return done()
		}
		res.Count("stream.reads", int64(sr.Reads))
		if sr.Fired {
			res.Count("fault.read-error.fired", 1)
			if err == nil {
				fail("reader:error-swallowed", fmt.Sprintf("the stream failed at byte %d of %d but OpenReader returned a document", sp.FailAt, len(pg.html)))
			}
			// the same through the extractor entry point
			sr2 := faults.NewSimReader([]byte(pg.html), sp.ChunkSeed, sp.FailAt)
			var e2 error
			guard("fromhtmlreader", func() error { _, _, e2 = tabula.FromHTMLReader(sr2).Text(); return nil })
			if sr2.Fired && e2 == nil {
				fail("reader:error-swallowed", fmt.Sprintf("the stream failed at byte %d of %d but FromHTMLReader(...).Text() reported success", sp.FailAt, len(pg.html)))
			}
			return done()
		}
		if err != nil {
			fail("reader:spurious-error", "OpenReader failed without an injected fault: "+err.Error())
			return done()
		}
		ext = func() *tabula.Extractor {
			return tabula.FromHTMLReader(faults.NewSimReader([]byte(pg.html), sp.ChunkSeed+1, -1))
		}
	case "epub":
		// a book of 1-12 chapters in spine order (file names do not follow it); some chapters
		// hold nothing but navigation or nothing at all, so they render empty under filtering
		br := sim.NewRand(sp.Seed ^ 0xE9B)
		nCh := 1 + br.Intn(5)
		if br.Pct(40) {
			nCh = 9 + br.Intn(4)
		}
		var chapters [][]byte
		for k := 0; k < nCh; k++ {
			switch {
			case k > 0 && br.Pct(20):
				chapters = append(chapters, []byte("<html><head><title>n</title></head><body><nav><ul><li><a href=\"#a\">w"+strconv.Itoa(900000+k)+"q only navigation</a></li></ul></nav></body></html>"))
			case k > 0 && br.Pct(10):
				chapters = append(chapters, []byte("<html><head><title>e</title></head><body></body></html>"))
			default:
				h := makePageFrom(sp.Seed+uint64(k)*7919, 3+br.Intn(sim.MaxInt(2, sp.Nodes/4)), (k+1)*1000).html
				if br.Pct(12) {
					// a chapter of 40-100 KB (a long comment in front of the content): more than one
					// read of the archive member, more than one window of the decompressor
					var fb strings.Builder
					fb.WriteString("<!-- ")
					for n := 40000 + br.Intn(60000); fb.Len() < n; {
						fb.WriteString(strconv.FormatUint(br.Uint64(), 36))
						fb.WriteByte(' ')
					}
					fb.WriteString("-->")
					h = strings.Replace(h, "<body>", "<body>"+fb.String(), 1)
				}
				chapters = append(chapters, []byte(h))
			}
		}
		data := officew.EPUBFromChapters(chapters, br).Bytes()
		if img, ok := c.Images["epub"]; ok {
			data = img
		}
		var er *epubdoc.Reader
		if oc, ok := guard("open", func() error { var err error; er, err = epubdoc.OpenReader(bytes.NewReader(data), int64(len(data))); return err }); !ok || oc.Kind != "ok" {
			if ok {
				fail("epub:open", "a well-formed EPUB cannot be opened: "+oc.Msg)
			}
			return done()
		}
		defer er.Close()
		if er.ChapterCount() != nCh {
			fail("epub:chapter-count", fmt.Sprintf("%d chapters reported, the spine lists %d", er.ChapterCount(), nCh))
			return done()
		}
		for m := 0; m < 4; m++ {
			for _, render := range []string{"text", "markdown"} {
				// the library's own rendering of every chapter alone, in spine order
				var want []string
				for _, ch := range chapters {
					var out string
					if oc, ok := guard("chapter", func() error {
						rd, err := htmldoc.OpenReader(bytes.NewReader(ch))
						if err != nil {
							return err
						}
						o := htmldoc.ExtractOptions{NavigationExclusion: modes[m]}
						if render == "text" {
							out, err = rd.TextWithOptions(o)
						} else {
							out, err = rd.MarkdownWithOptions(o)
						}
						return err
					}); !ok || oc.Kind != "ok" {
						return done()
					}
					want = append(want, tokens(out)...)
				}
				var out string
				oc, ok := guard("epub", func() error {
					var err error
					if render == "text" {
						out, err = er.TextWithOptions(epubdoc.ExtractOptions{NavigationExclusion: int(modes[m])})
					} else {
						out, err = er.MarkdownWithOptions(epubdoc.ExtractOptions{NavigationExclusion: int(modes[m])})
					}
					return err
				})
				if !ok {
					return done()
				}
				if oc.Kind != "ok" {
					fail("epub:error", oc.Msg)
					return done()
				}
				got := tokens(out)
				if strings.Join(got, " ") != strings.Join(want, " ") {
					a, b := sim.DiffContext(strings.Join(want, " "), strings.Join(got, " "))
					fail("epub:chapters:"+modeNames[m], fmt.Sprintf("the book's %s in mode %s is not its chapters' %s in spine order, each once (%d chapters)\n  chapters: %s\n  book:     %s", render, modeNames[m], render, nCh, a, b))
					return done()
				}
			}
		}
		res.Count("epub.chapters", int64(nCh))
		return done()
	}

	for qi, q := range sp.History {
		want, ok := refFor(q)
		if !ok {
			return done()
		}
		var got string
		oc, ok := guard("query", func() error { var err error; got, err = query(rd, q); return err })
		if !ok {
			return done()
		}
		res.Count("query."+q.Op+"."+modeNames[q.Mode%4], 1)
		if oc.Kind != "ok" {
			fail("history:error", fmt.Sprintf("query %d (%s/%s) failed after %d earlier queries but succeeds on a fresh reader: %s", qi, q.Op, modeNames[q.Mode%4], qi, oc.Msg))
			return done()
		}
		if got != want {
			a, b := sim.DiffContext(want, got)
			fail("history:"+q.Op, fmt.Sprintf("query %d (%s/%s) answers differently after the earlier queries %v than on a fresh reader\n  fresh:   %s\n  history: %s", qi, q.Op, modeNames[q.Mode%4], sp.History[:qi], a, b))
			return done()
		}
	}
	// extractor entry point: default options are mode None
	if ext != nil {
		var got string
		oc, ok := guard("extractor", func() error { var err error; got, _, err = ext().Text(); return err })
		if ok && oc.Kind == "ok" {
			if want, ok := refFor(Query{Op: "text", Mode: 0}); ok && got != want {
				a, b := sim.DiffContext(want, got)
				fail("entry:"+sp.Entry, fmt.Sprintf("the %s entry point returns different text than the string entry point\n  string: %s\n  %s: %s", sp.Entry, a, sp.Entry, b))
			}
		} else if ok {
			fail("entry:error", oc.Msg)
		}
		// extractors derived from one base (they may share what the base has loaded), used one
		// after the other in a seeded order: each answers as a fresh extractor configured the
		// same way does
		if failClass == "" {
			hr := sim.NewRand(sp.Seed ^ 0xD3A1)
			type use struct {
				name string
				run  func(b, d1, d2, d3 *tabula.Extractor) (string, error)
				ref  func() (string, error)
			}
			text := func(e *tabula.Extractor) (string, error) { s, _, err := e.Text(); return s, err }
			md := func(e *tabula.Extractor) (string, error) { s, _, err := e.ToMarkdown(); return s, err }
			uses := []use{
				{"base.JoinParagraphs().Text()", func(b, d1, d2, d3 *tabula.Extractor) (string, error) { return text(d1) }, func() (string, error) { return text(ext().JoinParagraphs()) }},
				{"base.ByColumn().Text()", func(b, d1, d2, d3 *tabula.Extractor) (string, error) { return text(d2) }, func() (string, error) { return text(ext().ByColumn()) }},
				{"base.Text()", func(b, d1, d2, d3 *tabula.Extractor) (string, error) { return text(b) }, func() (string, error) { return text(ext()) }},
				{"base.JoinParagraphs().ToMarkdown()", func(b, d1, d2, d3 *tabula.Extractor) (string, error) { return md(d3) }, func() (string, error) { return md(ext().JoinParagraphs()) }},
			}
			b := ext()
			// (every extractor is used for one terminal operation: one made from a stream cannot
			// be asked twice, it has nothing to reopen)
			d1, d2, d3 := b.JoinParagraphs(), b.ByColumn(), b.JoinParagraphs()
			var before []string
			for _, k := range hr.Perm(len(uses)) {
				u := uses[k]
				var got, want string
				var e1, e2 error
				if _, ok := guard("derived", func() error { got, e1 = u.run(b, d1, d2, d3); want, e2 = u.ref(); return nil }); !ok {
					break
				}
				if (e1 == nil) != (e2 == nil) || got != want {
					a, bb := sim.DiffContext(want, got)
					fail("derived:"+sp.Entry, fmt.Sprintf("%s on extractors derived from one base, after %v, differs from a fresh extractor configured the same way (errors: %v / %v)\n  fresh:   %s\n  derived: %s", u.name, before, e2, e1, a, bb))
					break
				}
				before = append(before, u.name)
			}
		}
	}
	rd.Close()
	return done()
}

func clip(s []string) []string {
	if len(s) > 30 {
		return append(append([]string{}, s[:30]...), "...")
	}
	return s
}

func histShape(h []Query) string {
	var b strings.Builder
	for _, q := range h {
		b.WriteString(q.Op[:1])
		b.WriteString(strconv.Itoa(q.Mode))
		if q.Flags != 0 {
			b.WriteString("f" + strconv.Itoa(q.Flags))
		}
	}
	return b.String()
}

func (p *Prop) Shrink(c *sim.Case) []*sim.Case {
	var sp Spec
	c.GetSpec(&sp)
	var out []*sim.Case
	emit := func(s Spec) {
		n := *c
		n.Images = nil
		n.SetSpec(s)
		out = append(out, &n)
	}
	for _, n := range []int{3, sp.Nodes / 4, sp.Nodes / 2, sp.Nodes - 1} {
		if n >= 1 && n < sp.Nodes {
			s := sp
			s.Nodes = n
			emit(s)
		}
	}
	for i := range sp.History {
		s := sp
		s.History = append(append([]Query{}, sp.History[:i]...), sp.History[i+1:]...)
		emit(s)
	}
	if sp.MapSeed != 0 {
		s := sp
		s.MapSeed = 0
		emit(s)
	}
	if sp.Entry != "string" && sp.FailAt < 0 {
		s := sp
		s.Entry = "string"
		emit(s)
	}
	return out
}

func (p *Prop) Finalise(c *sim.Case, env *sim.Env) {
	var sp Spec
	c.GetSpec(&sp)
	if c.Images == nil {
		c.Images = map[string][]byte{}
	}
	c.Images["html"] = []byte(makePage(sp.Seed, sp.Nodes).html)
	_ = env
}

func (p *Prop) Probes(env *sim.Env) []*sim.Case { return nil }
