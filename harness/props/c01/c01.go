// Package c01 decides property C01 (PDF text survives every physical file
// layout) as far as simulation applies: an independent writer commits a
// document to the simulated disk revision by revision; after each commit a
// reader task performs a seeded access history (page order, cache clears,
// reopen, shared reader, extractor on top) and every answer is compared with
// the writer's record of the newest committed revision.
package c01

import (
	"fmt"
	"sort"
	"strconv"
	"strings"
	"unicode"

	"github.com/tsawler/tabula"
	"github.com/tsawler/tabula/core"
	"github.com/tsawler/tabula/reader"
	"github.com/tsawler/tabula/zzharness/pdfw"
	"github.com/tsawler/tabula/zzharness/sim"
	"github.com/tsawler/tabula/zzsimrt"
)

type Step struct {
	Op   string `json:"op"` // pagecount frag text box rotate res clearcache reopen ext.text ext.frags ext.pagecount fromreader.text
	Page int    `json:"page,omitempty"`
}

type Spec struct {
	Doc     pdfw.DocSpec `json:"doc"`
	History [][]Step     `json:"history"` // per revision
	MapSeed uint64       `json:"map_seed,omitempty"`
	// Unloadable: at-rest fault (documents without updates only): the cross-reference entry of
	// one content stream of one page points at another object, so that this piece of the
	// page cannot be loaded. The page must then fail, or be complete - never silently partial.
	Unloadable *Unloadable `json:"unloadable,omitempty"`
}

type Unloadable struct {
	Page, Piece int
}

type Prop struct{}

func New() *Prop        { return &Prop{} }
func (*Prop) ID() string { return "C01" }

// avoidKnown resets dimensions until the spec has none of the listed findings.
func avoidKnown(sp pdfw.DocSpec, known []sim.Known) pdfw.DocSpec {
	for iter := 0; iter < 40; iter++ {
		f := sp.Features()
		var hit *sim.Known
		for i := range known {
			k := &known[i]
			if k.Status == "known" && len(k.Features) > 0 && pdfw.HasAll(f, k.Features) {
				hit = k
				break
			}
		}
		if hit == nil {
			return sp
		}
		// reset the dimension behind the finding's last feature
		sp = sp.Without(hit.Features[len(hit.Features)-1])
	}
	return sp
}

func (p *Prop) Generate(base uint64, index int, env *sim.Env) *sim.Case {
	seed := sim.RunSeed(base, "C01", index)
	r := sim.NewRand(seed)
	doc := pdfw.RandomSpec(r.Split("doc"))
	doc = avoidKnown(doc, env.Known)
	sp := Spec{Doc: doc}
	if r.Pct(50) {
		sp.MapSeed = r.Uint64() | 1
	}
	mode := "history"
	if doc.Revisions == 0 && r.Pct(30) {
		sp.Unloadable = &Unloadable{Page: r.Intn(8), Piece: r.Intn(4)}
		mode = "faults"
	}
	hr := r.Split("history")
	maxPages := doc.Pages + doc.Revisions + 1
	for rev := 0; rev <= doc.Revisions; rev++ {
		n := 2 + hr.Intn(10)
		if hr.Pct(15) {
			n = 15 + hr.Intn(15)
		}
		var steps []Step
		for i := 0; i < n; i++ {
			op := sim.Pick(hr, []string{"pagecount", "frag", "frag", "frag", "text", "box", "rotate", "res", "clearcache", "reopen",
				"ext.text", "ext.frags", "ext.pagecount", "fromreader.text", "meta.text", "meta.markdown", "meta.jsonl", "meta.document"})
			steps = append(steps, Step{Op: op, Page: hr.Intn(maxPages)})
		}
		sp.History = append(sp.History, steps)
	}
	c := &sim.Case{Prop: "C01", Seed: seed, Index: index, Mode: mode}
	c.SetSpec(sp)
	return c
}

// genCase generates the file of a case, with its at-rest fault if it has one.
func genCase(sp *Spec) (*pdfw.GenDoc, int) {
	gen := pdfw.Generate(sp.Doc)
	if u := sp.Unloadable; u != nil && sp.Doc.Revisions == 0 && len(gen.PageContent) > 0 {
		pg := u.Page % len(gen.PageContent)
		if pieces := gen.PageContent[pg]; len(pieces) > 0 {
			victim := pieces[u.Piece%len(pieces)]
			target, ok := gen.Built.Offsets[0][gen.Catalog]
			if _, plain := gen.Built.Offsets[0][victim]; ok && plain {
				gen = pdfw.GenerateWith(sp.Doc, nil, nil, func(rev, num, off int) int {
					if num == victim {
						return target
					}
					return off
				})
				return gen, pg
			}
		}
	}
	return gen, -1
}

func stripSpace(s string) string {
	var b strings.Builder
	for _, r := range s {
		if !unicode.IsSpace(r) {
			b.WriteRune(r)
		}
	}
	return b.String()
}

// sameModel: do two logical documents show the same lines at the same places?
func sameModel(a, b pdfw.DocModel) bool {
	if len(a.Pages) != len(b.Pages) {
		return false
	}
	for i := range a.Pages {
		if a.Pages[i].MediaBox != b.Pages[i].MediaBox || a.Pages[i].Rotate != b.Pages[i].Rotate || len(a.Pages[i].Lines) != len(b.Pages[i].Lines) {
			return false
		}
		for j := range a.Pages[i].Lines {
			if a.Pages[i].Lines[j] != b.Pages[i].Lines[j] {
				return false
			}
		}
	}
	return true
}

func sortRunes(s string) string {
	r := []rune(s)
	sort.Slice(r, func(i, j int) bool { return r[i] < r[j] })
	return string(r)
}

func boxEq(a []float64, b [4]float64) bool {
	if len(a) != 4 {
		return false
	}
	for i := range a {
		d := a[i] - b[i]
		if d < -1e-6 || d > 1e-6 {
			return false
		}
	}
	return true
}

// textLevelOracle: assembled text (Text(), ExtractText) passes through line
// grouping, column detection and reading-order heuristics, which drop or move
// characters on some geometries irrespective of how the file is stored (that is
// property C09's subject, a pure function of the fragments, not decided here).
// Demanding conservation of them would report those heuristics under C01, so
// assembled-text steps only have to succeed; the fragment-level steps carry the
// exact comparison.
const textLevelOracle = false

type failure struct {
	class  string
	detail string
}

func (p *Prop) Execute(c *sim.Case, env *sim.Env) *sim.Result {
	var sp Spec
	c.GetSpec(&sp)
	res := &sim.Result{Status: "ok"}
	var commits [][]byte
	var models []pdfw.DocModel
	gen, damagedPage := genCase(&sp)
	if damagedPage >= 0 {
		res.Count("fault.unloadable-content.injected", 1)
	}
	commits, models = gen.Commits, gen.Models
	if img, ok := c.Images["pdf"]; ok {
		// replay from materialised bytes: cut at the recorded revision ends
		commits = nil
		last := 0
		for _, e := range gen.Built.RevEnd {
			if e > len(img) {
				e = len(img)
			}
			commits = append(commits, img[last:e])
			last = e
		}
	}
	feats := sp.Doc.Features()
	// the same logical document in the plainest physical layout (metamorphic reference)
	plainGen := pdfw.Generate(sp.Doc.PlainStorage())
	t := zzsimrt.NewTask(0, sp.MapSeed)
	zzsimrt.Enter(t)
	defer zzsimrt.Leave()

	path := env.Disk.PutNamed("c01.pdf", nil)
	plainPath := env.Disk.PutNamed("c01-plain.pdf", nil)
	var fail *failure
	setFail := func(class, detail string) {
		if fail == nil {
			fail = &failure{class, detail}
		}
	}
	totalSteps := 0
	// a bound that only stops non-termination: generous, and growing with the size of the
	// file (a page with a megabyte of drawing legitimately costs tens of millions of steps,
	// more through several filters and the layout analysis on top)
	size := 0
	for _, cm := range commits {
		size += len(cm)
	}
	stepBudget := int64(50_000_000) + 600*int64(size)
	for rev := range commits {
		env.Disk.Append(path, commits[rev])
		if rev < len(plainGen.Commits) {
			env.Disk.Append(plainPath, plainGen.Commits[rev])
		}
		model := models[rev]
		sameLogical := rev < len(plainGen.Models) && sameModel(model, plainGen.Models[rev])
		var rd *reader.Reader
		open := func() bool {
			var err error
			oc := sim.Guard(t, stepBudget, func() error {
				rd, err = reader.Open(path)
				return err
			})
			if oc.Kind != "ok" {
				setFail("open:"+oc.Kind, fmt.Sprintf("rev %d: reader.Open failed on a well-formed file: %s %s", rev, oc.Where, oc.Msg))
				rd = nil
				return false
			}
			return true
		}
		if !open() {
			break
		}
		if rev >= len(sp.History) {
			rd.Close()
			continue
		}
		for si, st := range sp.History[rev] {
			if fail != nil {
				break
			}
			totalSteps++
			res.Count("step."+st.Op, 1)
			if env.LogEvents {
				res.Log = append(res.Log, fmt.Sprintf("r%d.%d %s p%d steps=%d", rev, si, st.Op, st.Page, t.Total))
			}
			pg := st.Page
			inRange := pg < len(model.Pages)
			where := fmt.Sprintf("rev %d step %d %s(page %d)", rev, si, st.Op, pg)
			call := func(f func() error) sim.Outcome { return sim.Guard(t, stepBudget, f) }
			switch st.Op {
			case "pagecount":
				var n int
				oc := call(func() error { var e error; n, e = rd.PageCount(); return e })
				if oc.Kind != "ok" {
					setFail("pagecount:"+oc.Kind, where+": "+oc.Msg)
				} else if n != len(model.Pages) {
					setFail("pagecount:wrong", fmt.Sprintf("%s: got %d, the newest revision has %d page leaves", where, n, len(model.Pages)))
				}
			case "frag", "text", "box", "rotate", "res":
				var oc sim.Outcome
				var got string
				var box []float64
				var rot int
				var fontNames []string
				oc = call(func() error {
					page, err := rd.GetPage(pg)
					if err != nil {
						return err
					}
					switch st.Op {
					case "frag":
						fr, err := rd.ExtractTextFragments(page)
						if err != nil {
							return err
						}
						var b strings.Builder
						for _, f := range fr {
							b.WriteString(f.Text)
						}
						got = b.String()
					case "text":
						s, err := rd.ExtractText(page)
						if err != nil {
							return err
						}
						got = s
					case "box":
						box, err = page.MediaBox()
						if err != nil {
							return err
						}
					case "rotate":
						rot = page.Rotate()
					case "res":
						rs, err := page.Resources()
						if err != nil {
							return err
						}
						fo, err := rd.Resolve(rs.Get("Font"))
						if err != nil {
							return err
						}
						if fd, ok := fo.(core.Dict); ok {
							for k := range fd {
								fontNames = append(fontNames, k)
							}
							sort.Strings(fontNames)
						}
					}
					return nil
				})
				if !inRange {
					if oc.Kind == "ok" {
						setFail(st.Op+":no-error", where+": page index beyond the page count gave no error")
					} else if oc.Bad() {
						setFail(st.Op+":"+oc.Kind, where+": "+oc.Class()+" "+oc.Msg)
					}
					break
				}
				if oc.Kind != "ok" {
					if pg == damagedPage && oc.Kind == "error" && (st.Op == "frag" || st.Op == "text") {
						res.Count("fault.unloadable-content.fired", 1)
						break // a piece of this page cannot be loaded: failing is the right answer
					}
					setFail(st.Op+":"+oc.Kind, fmt.Sprintf("%s: %s %s", where, oc.Where, oc.Msg))
					break
				}
				pm := model.Pages[pg]
				switch st.Op {
				case "text":
					// assembled text goes through line grouping and reading-order heuristics:
					// only conservation of the characters is demanded of it
					if textLevelOracle && sortRunes(stripSpace(got)) != sortRunes(pm.Expected()) {
						a, b := sim.DiffContext(sortRunes(pm.Expected()), sortRunes(stripSpace(got)))
						setFail("text:wrong-chars", fmt.Sprintf("%s: the non-white-space characters differ (as a multiset) from what the page shows\n  expected: %s\n  got:      %s", where, a, b))
					}
				case "frag":
					if stripSpace(got) != pm.Expected() {
						a, b := sim.DiffContext(pm.Expected(), stripSpace(got))
						setFail(st.Op+":wrong-text", fmt.Sprintf("%s: non-white-space text differs from what the page shows\n  expected: %s\n  got:      %s", where, a, b))
					}
				case "box":
					if !boxEq(box, pm.MediaBox) {
						setFail("box:wrong", fmt.Sprintf("%s: MediaBox %v, expected %v", where, box, pm.MediaBox))
					}
				case "rotate":
					if rot != pm.Rotate {
						setFail("rotate:wrong", fmt.Sprintf("%s: Rotate %d, expected %d", where, rot, pm.Rotate))
					}
				case "res":
					want := append([]string{}, pm.FontRes...)
					sort.Strings(want)
					if strings.Join(fontNames, ",") != strings.Join(want, ",") {
						setFail("res:wrong", fmt.Sprintf("%s: font resources %v, expected %v", where, fontNames, want))
					}
				}
			case "clearcache":
				rd.ClearCache()
			case "reopen":
				rd.Close()
				if !open() {
					break
				}
			case "ext.pagecount":
				var n int
				oc := call(func() error {
					e := tabula.Open(path)
					defer e.Close()
					var err error
					n, err = e.PageCount()
					return err
				})
				if oc.Kind != "ok" {
					setFail("ext.pagecount:"+oc.Kind, where+": "+oc.Where+" "+oc.Msg)
				} else if n != len(model.Pages) {
					setFail("ext.pagecount:wrong", fmt.Sprintf("%s: got %d, expected %d", where, n, len(model.Pages)))
				}
			case "meta.text", "meta.markdown", "meta.jsonl", "meta.document":
				if damagedPage >= 0 {
					break
				}
				// "no matter how the file stores it": the complete result for this file must be
				// byte-identical to the result for the same logical document stored plainly
				if !sameLogical {
					res.Count("meta.skipped-models-differ", 1)
					break
				}
				run := func(pth string) (string, sim.Outcome) {
					var out string
					oc := call(func() error {
						var err error
						switch st.Op {
						case "meta.text":
							out, _, err = tabula.Open(pth).Text()
						case "meta.markdown":
							out, _, err = tabula.Open(pth).ToMarkdown()
						case "meta.document":
							d, _, e := tabula.Open(pth).Document()
							err = e
							if d != nil {
								out = sim.Dump(d.Pages)
							}
						default:
							cc, _, e := tabula.Open(pth).Chunks()
							err = e
							if cc != nil {
								out, err = cc.ToJSONL()
							}
						}
						return err
					})
					return out, oc
				}
				vOut, vOc := run(path)
				pOut, pOc := run(plainPath)
				if vOc.Bad() {
					setFail(st.Op+":"+vOc.Kind, where+": "+vOc.Class()+" "+vOc.Msg)
					break
				}
				if vOc.Kind != pOc.Kind {
					setFail(st.Op+":storage-dependent", fmt.Sprintf("%s: the operation gives %s (%s) on this file but %s (%s) on the same logical document stored plainly", where, vOc.Kind, vOc.Msg, pOc.Kind, pOc.Msg))
					break
				}
				if vOut != pOut {
					a, b := sim.DiffContext(pOut, vOut)
					setFail(st.Op+":storage-dependent", fmt.Sprintf("%s: the result depends on how the file stores the document\n  plain layout: %s\n  this layout:  %s", where, a, b))
				}
			case "ext.text", "ext.frags", "fromreader.text":
				var got string
				var want string
				oc := call(func() error {
					switch st.Op {
					case "ext.text":
						s, _, err := tabula.Open(path).Text()
						got = s
						for _, pm := range model.Pages {
							want += pm.Expected()
						}
						return err
					case "ext.frags":
						ex := tabula.Open(path)
						if inRange {
							ex = ex.Pages(pg + 1)
							want = model.Pages[pg].Expected()
						} else {
							for _, pm := range model.Pages {
								want += pm.Expected()
							}
						}
						fr, _, err := ex.Fragments()
						var b strings.Builder
						for _, f := range fr {
							b.WriteString(f.Text)
						}
						got = b.String()
						return err
					default:
						ex := tabula.FromReader(rd)
						if inRange {
							ex = ex.Pages(pg + 1)
							want = model.Pages[pg].Expected()
						} else {
							for _, pm := range model.Pages {
								want += pm.Expected()
							}
						}
						s, _, err := ex.Text()
						got = s
						return err
					}
				})
				if oc.Kind != "ok" {
					if damagedPage >= 0 && oc.Kind == "error" && (!inRange || pg == damagedPage || st.Op == "ext.text") {
						res.Count("fault.unloadable-content.fired", 1)
						break
					}
					setFail(st.Op+":"+oc.Kind, fmt.Sprintf("%s: %s %s", where, oc.Where, oc.Msg))
				} else if st.Op == "ext.frags" && stripSpace(got) != want {
					a, b := sim.DiffContext(want, stripSpace(got))
					setFail(st.Op+":wrong-text", fmt.Sprintf("%s: non-white-space text differs\n  expected: %s\n  got:      %s", where, a, b))
				} else if textLevelOracle && st.Op != "ext.frags" && sortRunes(stripSpace(got)) != sortRunes(want) {
					a, b := sim.DiffContext(sortRunes(want), sortRunes(stripSpace(got)))
					setFail(st.Op+":wrong-chars", fmt.Sprintf("%s: the non-white-space characters differ (as a multiset)\n  expected: %s\n  got:      %s", where, a, b))
				}
			}
		}
		if rd != nil {
			rd.Close()
		}
		if fail != nil {
			break
		}
	}
	if open := env.Disk.OpenFDs(); len(open) > 0 && fail == nil {
		setFail("fd-leak", fmt.Sprintf("descriptors still open after the history: %v", open))
	}
	res.Steps = t.Total
	res.Features = feats
	res.Count("history_steps", int64(totalSteps))
	res.Count("revisions", int64(len(commits)))
	res.Count("map_draws", zzsimrt.MapDraws)
	res.Fingerprint = strings.Join(feats, ",") + "|" + histShape(sp.History)
	res.Nontrivial = len(feats) > 0 && totalSteps > 0
	res.Sample = map[string]interface{}{"features": feats, "file_bytes": len(gen.Built.Bytes), "revisions": len(commits),
		"history_first_rev": firstN(sp.History, 8)}
	if fail != nil {
		res.Status = "violation"
		res.Class = fail.class
		res.Detail = fail.detail + "\n  layout features: " + strings.Join(feats, ", ")
	}
	return res
}

func firstN(h [][]Step, n int) []Step {
	if len(h) == 0 {
		return nil
	}
	if len(h[0]) > n {
		return h[0][:n]
	}
	return h[0]
}

func histShape(h [][]Step) string {
	var b strings.Builder
	for _, rev := range h {
		for _, s := range rev {
			b.WriteString(s.Op[:1])
			b.WriteString(strconv.Itoa(s.Page))
		}
		b.WriteByte('/')
	}
	return b.String()
}

func (p *Prop) Shrink(c *sim.Case) []*sim.Case {
	var sp Spec
	c.GetSpec(&sp)
	var out []*sim.Case
	emit := func(s Spec) {
		n := *c
		n.Images = nil
		n.SetSpec(s)
		out = append(out, &n)
	}
	cpHist := func() [][]Step {
		h := make([][]Step, len(sp.History))
		for i := range sp.History {
			h[i] = append([]Step{}, sp.History[i]...)
		}
		return h
	}
	// shorter histories first: keep only one step, halves, single deletions
	for rev := range sp.History {
		n := len(sp.History[rev])
		if n > 1 {
			for _, keep := range []int{1, n / 2} {
				s := sp
				s.History = cpHist()
				s.History[rev] = s.History[rev][n-keep:]
				emit(s)
				s2 := sp
				s2.History = cpHist()
				s2.History[rev] = s2.History[rev][:keep]
				emit(s2)
			}
		}
		if n > 0 {
			s := sp
			s.History = cpHist()
			s.History[rev] = nil
			emit(s)
		}
	}
	for rev := range sp.History {
		if len(sp.History[rev]) <= 12 {
			for i := range sp.History[rev] {
				s := sp
				s.History = cpHist()
				s.History[rev] = append(s.History[rev][:i], s.History[rev][i+1:]...)
				emit(s)
			}
		}
	}
	for _, d := range sp.Doc.Shrinks() {
		s := sp
		s.Doc = d
		s.History = cpHist()
		if len(s.History) > d.Revisions+1 {
			// a revision was dropped: its history moves to the last remaining one
			var tail []Step
			for _, h := range s.History[d.Revisions+1:] {
				tail = append(tail, h...)
			}
			s.History = s.History[:d.Revisions+1]
			emit(s)
			s2 := s
			s2.History = append([][]Step{}, s.History...)
			s2.History[d.Revisions] = append(append([]Step{}, s.History[d.Revisions]...), tail...)
			emit(s2)
			continue
		}
		emit(s)
	}
	// lower page indices (so that the page count can shrink afterwards)
	for rev := range sp.History {
		for i, st := range sp.History[rev] {
			if st.Page > 0 {
				s := sp
				s.History = cpHist()
				s.History[rev][i].Page = 0
				emit(s)
				if st.Page > 1 {
					s2 := sp
					s2.History = cpHist()
					s2.History[rev][i].Page = st.Page - 1
					emit(s2)
				}
			}
		}
	}
	if sp.MapSeed != 0 {
		s := sp
		s.MapSeed = 0
		emit(s)
	}
	return out
}

func (p *Prop) Finalise(c *sim.Case, env *sim.Env) {
	var sp Spec
	c.GetSpec(&sp)
	if c.Images == nil {
		c.Images = map[string][]byte{}
	}
	g, _ := genCase(&sp)
	c.Images["pdf"] = g.Built.Bytes
}

// Probes: one small document per listed finding, with exactly its features on.
func (p *Prop) Probes(env *sim.Env) []*sim.Case {
	var out []*sim.Case
	for _, k := range env.Known {
		if k.Status != "known" || len(k.Features) == 0 {
			continue
		}
		for variant := 0; variant < 4; variant++ {
			doc, ok := pdfw.SpecWithFeatures(k.Features)
			if !ok {
				continue
			}
			doc.Seed += uint64(variant) * 7919
			doc.Lines = 6 + 2*variant
			sp := Spec{Doc: doc}
			for rev := 0; rev <= doc.Revisions; rev++ {
				sp.History = append(sp.History, []Step{{Op: "pagecount"}, {Op: "frag", Page: 0}, {Op: "box", Page: 0}, {Op: "res", Page: 0},
					{Op: "frag", Page: 1}, {Op: "ext.frags", Page: 0}, {Op: "ext.text"}, {Op: "clearcache"}, {Op: "frag", Page: 0}})
			}
			c := &sim.Case{Prop: "C01", Seed: 1, Index: -1, Mode: "probe", Note: k.What}
			c.SetSpec(sp)
			out = append(out, c)
		}
	}
	return out
}
