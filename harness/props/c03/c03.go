// Package c03 decides property C03: extraction is deterministic and free of
// cross-call interference. Three simulator-controlled dimensions (schedule,
// call history, map iteration order), one oracle: every operation's output
// equals the solo reference — the same call alone in a fresh process.
package c03

import (
	"bytes"
	"encoding/json"
	"fmt"
	"os"
	"os/exec"
	"runtime/debug"
	"sort"
	"strconv"
	"strings"

	"github.com/tsawler/tabula/zzharness/docpool"
	"github.com/tsawler/tabula/zzharness/sim"
	"github.com/tsawler/tabula/zzsimrt"
)

type OpRef struct {
	Doc int    `json:"doc"` // index into the pool
	Op  string `json:"op"`
}

type Spec struct {
	Pool        uint64            `json:"pool"` // pool seed
	Tasks       [][]OpRef         `json:"tasks"`
	Plan        []zzsimrt.Quantum `json:"plan,omitempty"`
	DrawSeed    uint64            `json:"draw_seed,omitempty"`
	MeanQuantum int               `json:"mean_quantum,omitempty"`
	SOnlyPct    int               `json:"s_only_pct,omitempty"`
	MaxSwitches int               `json:"max_switches,omitempty"`
	MapSeeds    []uint64          `json:"map_seeds,omitempty"` // per task; 0 = identity order
}

type Prop struct {
	refs map[string][2]string // (pool, doc, op) -> solo outputs under two map orders
}

func New() *Prop { return &Prop{refs: map[string][2]string{}} }

func (p *Prop) ID() string { return "C03" }

const poolSpan = 200 // run indices that share one document pool

func (p *Prop) Generate(base uint64, index int, env *sim.Env) *sim.Case {
	seed := sim.RunSeed(base, "C03", index)
	r := sim.NewRand(seed)
	poolSeed := sim.RunSeed(base, "C03-pool", index/poolSpan)
	pool := docpool.New(poolSeed)
	c := &sim.Case{Prop: "C03", Seed: seed, Index: index}
	sp := Spec{Pool: poolSeed}
	switch m := r.Intn(10); {
	case m < 6:
		c.Mode = "sched"
		k := 2 + r.Intn(3)
		docs := r.Perm(pool.Size())[:k] // distinct documents
		for t := 0; t < k; t++ {
			n := 1 + r.Intn(3)
			var ops []OpRef
			for i := 0; i < n; i++ {
				ops = append(ops, OpRef{Doc: docs[t], Op: sim.Pick(r, pool.OpsFor(docs[t]))})
			}
			sp.Tasks = append(sp.Tasks, ops)
		}
		sp.DrawSeed = r.Uint64() | 1
		sp.MeanQuantum = sim.Pick(r, []int{2, 5, 20, 100, 1000, 10000})
		sp.SOnlyPct = sim.Pick(r, []int{0, 10, 50, 90})
		sp.MaxSwitches = sim.Pick(r, []int{1, 3, 10, 50, 200})
	case m < 9:
		c.Mode = "history"
		n := 2 + r.Intn(5)
		var ops []OpRef
		for i := 0; i < n; i++ {
			d := r.Intn(pool.Size())
			if i > 0 && r.Pct(30) {
				d = ops[r.Intn(len(ops))].Doc // repeat a document
			}
			ops = append(ops, OpRef{Doc: d, Op: sim.Pick(r, pool.OpsFor(d))})
		}
		sp.Tasks = [][]OpRef{ops}
	default:
		c.Mode = "maporder"
		d := r.Intn(pool.Size())
		sp.Tasks = [][]OpRef{{{Doc: d, Op: sim.Pick(r, pool.OpsFor(d))}}}
		sp.MapSeeds = []uint64{r.Uint64() | 1}
	}
	c.SetSpec(sp)
	return c
}

// docBytes returns the image of pool document i, from the case's embedded
// images when present.
func docBytes(c *sim.Case, sp *Spec, i int) (data []byte, ext string) {
	d := docpool.New(sp.Pool).Doc(i)
	if img, ok := c.Images["doc"+strconv.Itoa(i)]; ok {
		return img, d.Ext
	}
	return d.Data, d.Ext
}

type opOut struct {
	Task int    `json:"task"`
	Seq  int    `json:"seq"`
	Op   OpRef  `json:"op"`
	Out  string `json:"-"`
}

func (p *Prop) Execute(c *sim.Case, env *sim.Env) *sim.Result {
	var sp Spec
	c.GetSpec(&sp)
	res := &sim.Result{Status: "ok"}
	// each run has a process of its own and is short: without garbage collections the
	// runtime never empties sync.Pools at a moment the simulator does not control
	debug.SetGCPercent(-1)
	// materialise the documents this case uses
	paths := map[int]string{}
	datas := map[int][]byte{}
	for _, ops := range sp.Tasks {
		for _, o := range ops {
			if _, ok := paths[o.Doc]; ok {
				continue
			}
			data, ext := docBytes(c, &sp, o.Doc)
			datas[o.Doc] = data
			paths[o.Doc] = env.Disk.PutNamed(fmt.Sprintf("c03-%016x-%d%s", sp.Pool, o.Doc, ext), data)
		}
	}
	// solo references (identity map order)
	ref := func(o OpRef) (string, string) {
		return p.solo(env, sp.Pool, o, paths[o.Doc])
	}

	tasks := make([]*zzsimrt.Task, len(sp.Tasks))
	outs := make([][]opOut, len(sp.Tasks))
	bodies := make([]func(), len(sp.Tasks))
	for t := range sp.Tasks {
		t := t
		var ms uint64
		if t < len(sp.MapSeeds) {
			ms = sp.MapSeeds[t]
		}
		tasks[t] = zzsimrt.NewTask(t, ms)
		bodies[t] = func() {
			for i, o := range sp.Tasks[t] {
				out := docpool.RunOp(tasks[t], o.Op, paths[o.Doc], datas[o.Doc], 0)
				outs[t] = append(outs[t], opOut{Task: t, Seq: i, Op: o, Out: out})
			}
		}
	}
	var s *zzsimrt.Sched
	if len(tasks) == 1 {
		zzsimrt.Enter(tasks[0])
		bodies[0]()
		zzsimrt.Leave()
	} else {
		cfg := zzsimrt.SchedCfg{Plan: sp.Plan, Seed: sp.DrawSeed, MeanQuantum: sp.MeanQuantum, SOnlyPct: sp.SOnlyPct,
			MaxSwitches: sp.MaxSwitches, RaceRule: !docpool.SyncSeen()}
		s = zzsimrt.RunScheduled(cfg, tasks, bodies)
		if s.TimedOut {
			res.Status = "infra"
			res.Detail = "scheduled run did not finish within the wall-clock backstop"
			return res
		}
		res.Count("switches", int64(s.Switches))
		res.Count("points", s.Points)
		res.Count("s_points", s.SPoints)
		res.Count("races_checked", s.SPoints)
	}
	for _, t := range tasks {
		res.Steps += t.Total
	}
	res.Count("map_draws", 0)

	// oracle
	verdict := func(class, detail string) {
		if res.Status == "ok" {
			res.Status = "violation"
			res.Class = class
			res.Detail = detail
		}
	}
	for t := range outs {
		for _, oo := range outs[t] {
			var ms uint64
			if t < len(sp.MapSeeds) {
				ms = sp.MapSeeds[t]
			}
			want, other := ref(oo.Op)
			res.Count("ops", 1)
			if strings.HasPrefix(oo.Out, docpool.RepeatMismatch) {
				verdict("repeat:"+oo.Op.Op, fmt.Sprintf("%s on doc %d: repeating the operation on the same reader gives different results\n  %s", oo.Op.Op, oo.Op.Doc, oo.Out))
			}
			if want != other {
				a, b := sim.DiffContext(want, other)
				verdict("map-order:"+oo.Op.Op, fmt.Sprintf("%s on doc %d alone in a fresh process gives different results under two map iteration orders\n  identity order: %s\n  seeded order:   %s",
					oo.Op.Op, oo.Op.Doc, a, b))
			}
			if oo.Out != want {
				kind := "interleaving"
				switch c.Mode {
				case "history":
					kind = "history"
				case "maporder":
					kind = "map-order"
				}
				if len(sp.Tasks) == 1 && len(sp.Tasks[0]) == 1 && ms == 0 {
					kind = "unstable" // a single call alone disagrees with itself
				}
				a, b := sim.DiffContext(want, oo.Out)
				verdict(kind+":"+oo.Op.Op, fmt.Sprintf("task %d op %d (%s on doc %d): output differs from the solo reference\n  solo: %s\n  here: %s",
					t, oo.Seq, oo.Op.Op, oo.Op.Doc, a, b))
			}
		}
	}
	if s != nil && len(s.Races) > 0 {
		rc := s.Races[0]
		verdict("race:"+zzsimrt.VarName(rc.Var), fmt.Sprintf("tasks %d and %d access %s without ordering (write=%v/%v) at %s and %s",
			rc.TaskA, rc.TaskB, zzsimrt.VarName(rc.Var), rc.WriteA, rc.WriteB, zzsimrt.SiteName(rc.SiteA), zzsimrt.SiteName(rc.SiteB)))
		res.Count("races", int64(len(s.Races)))
	}
	// as-executed case: the realised schedule replaces the draw seed
	if s != nil {
		ex := *c
		sp2 := sp
		sp2.Plan = s.Realised
		sp2.DrawSeed = 0
		ex.SetSpec(sp2)
		res.Sample = map[string]interface{}{"mode": c.Mode, "tasks": sp.Tasks, "schedule_prefix": head(s.Realised, 12), "switches": s.Switches}
		res.Fingerprint = fmt.Sprintf("sched:%016x", s.Trace^sim.HashString(fmt.Sprint(sp.Tasks)))
		res.Nontrivial = s.Switches > 0
		if res.Status == "violation" {
			res.Executed = &ex
		}
	} else {
		res.Sample = map[string]interface{}{"mode": c.Mode, "ops": sp.Tasks[0], "map_seeds": sp.MapSeeds}
		res.Fingerprint = c.Mode + ":" + fmt.Sprint(sp.Tasks[0]) + fmt.Sprint(sp.MapSeeds)
		res.Nontrivial = len(sp.Tasks[0]) > 1 || len(sp.MapSeeds) > 0
	}
	if env.LogEvents {
		for t := range outs {
			for _, oo := range outs[t] {
				res.Log = append(res.Log, fmt.Sprintf("t%d.%d %s doc%d -> %016x", t, oo.Seq, oo.Op.Op, oo.Op.Doc, sim.HashString(oo.Out)))
			}
		}
		if s != nil {
			res.Log = append(res.Log, fmt.Sprintf("trace %016x switches %d points %d", s.Trace, s.Switches, s.Points))
		}
	}
	return res
}

func head(q []zzsimrt.Quantum, n int) []zzsimrt.Quantum {
	if len(q) > n {
		return q[:n]
	}
	return q
}

func clip(s string) string {
	if len(s) > 300 {
		return strconv.Quote(s[:300]) + "..."
	}
	return strconv.Quote(s)
}

// solo computes the reference output of one operation alone in a fresh process,
// under the identity map order and under one seeded map order.
func (p *Prop) solo(env *sim.Env, pool uint64, o OpRef, path string) (string, string) {
	key := fmt.Sprintf("%016x-%d-%s", pool, o.Doc, o.Op)
	if v, ok := p.refs[key]; ok {
		return v[0], v[1]
	}
	// references are shared between the worker processes of a batch through files
	// (each run executes in a process of its own, so an in-memory cache would be lost)
	cacheFile := ""
	if base := os.Getenv("ZZSIM_DISK"); base != "" {
		dir := base + "/refcache"
		os.MkdirAll(dir, 0o755)
		cacheFile = dir + "/" + key
		if b, err := os.ReadFile(cacheFile); err == nil {
			var v [2]string
			if json.Unmarshal(b, &v) == nil {
				p.refs[key] = v
				return v[0], v[1]
			}
		}
	}
	run := func(ms uint64) string {
		req, _ := json.Marshal(map[string]interface{}{"op": o.Op, "path": path, "map_seed": ms})
		cmd := exec.Command(env.WorkerBin, "-solo")
		cmd.Stdin = bytes.NewReader(req)
		cmd.Env = append(os.Environ(), "ZZSIM_DISK="+env.Disk.Dir)
		out, err := cmd.Output()
		if err != nil {
			return "SOLO-PROCESS-FAILED: " + err.Error() + " " + string(out)
		}
		return string(out)
	}
	v := [2]string{run(0), run(0x5DEECE66D ^ pool)}
	p.refs[key] = v
	if cacheFile != "" && !strings.HasPrefix(v[0], "SOLO-PROCESS-FAILED") && !strings.HasPrefix(v[1], "SOLO-PROCESS-FAILED") {
		tmp := fmt.Sprintf("%s.%d.tmp", cacheFile, os.Getpid())
		b, _ := json.Marshal(v)
		if os.WriteFile(tmp, b, 0o644) == nil {
			os.Rename(tmp, cacheFile)
		}
	}
	return v[0], v[1]
}

func (p *Prop) Shrink(c *sim.Case) []*sim.Case {
	var sp Spec
	c.GetSpec(&sp)
	var out []*sim.Case
	emit := func(s Spec) {
		n := *c
		n.SetSpec(s)
		out = append(out, &n)
	}
	cp := func() Spec {
		s := sp
		s.Tasks = make([][]OpRef, len(sp.Tasks))
		for i := range sp.Tasks {
			s.Tasks[i] = append([]OpRef{}, sp.Tasks[i]...)
		}
		s.Plan = append([]zzsimrt.Quantum{}, sp.Plan...)
		s.MapSeeds = append([]uint64{}, sp.MapSeeds...)
		return s
	}
	// drop a whole task (renumber the plan)
	if len(sp.Tasks) > 2 {
		for t := range sp.Tasks {
			s := cp()
			s.Tasks = append(s.Tasks[:t], s.Tasks[t+1:]...)
			var plan []zzsimrt.Quantum
			for _, q := range sp.Plan {
				if q.Task == t {
					continue
				}
				if q.Task > t {
					q.Task--
				}
				plan = append(plan, q)
			}
			s.Plan = plan
			if t < len(s.MapSeeds) {
				s.MapSeeds = append(s.MapSeeds[:t], s.MapSeeds[t+1:]...)
			}
			emit(s)
		}
	}
	// drop single operations
	for t := range sp.Tasks {
		if len(sp.Tasks[t]) <= 1 {
			continue
		}
		for i := range sp.Tasks[t] {
			s := cp()
			s.Tasks[t] = append(s.Tasks[t][:i], s.Tasks[t][i+1:]...)
			emit(s)
		}
	}
	// simplify the schedule: cut the tail, delete entries, merge neighbours
	if n := len(sp.Plan); n > 0 {
		for _, keep := range []int{1, 2, n / 4, n / 2, n - 1} {
			if keep >= 1 && keep < n {
				s := cp()
				s.Plan = s.Plan[:keep]
				emit(s)
			}
		}
		for i := 0; i < n && i < 64; i++ {
			s := cp()
			s.Plan = append(s.Plan[:i], s.Plan[i+1:]...)
			emit(s)
		}
		for i := 0; i < n && i < 64; i++ {
			if sp.Plan[i].N > 1 {
				s := cp()
				s.Plan[i].N /= 2
				emit(s)
			}
			if sp.Plan[i].SOnly {
				s := cp()
				s.Plan[i].SOnly = false
				emit(s)
			}
		}
	}
	// identity map order
	for t, ms := range sp.MapSeeds {
		if ms != 0 {
			s := cp()
			s.MapSeeds[t] = 0
			emit(s)
		}
	}
	return out
}

func (p *Prop) Finalise(c *sim.Case, env *sim.Env) {
	var sp Spec
	c.GetSpec(&sp)
	if c.Images == nil {
		c.Images = map[string][]byte{}
	}
	for _, ops := range sp.Tasks {
		for _, o := range ops {
			k := "doc" + strconv.Itoa(o.Doc)
			if _, ok := c.Images[k]; !ok {
				c.Images[k] = docpool.New(sp.Pool).Doc(o.Doc).Data
			}
		}
	}
}

func (p *Prop) Probes(env *sim.Env) []*sim.Case { return nil }

// Solo is the entry point of the child process.
func Solo(in []byte) string {
	var req struct {
		Op      string `json:"op"`
		Path    string `json:"path"`
		MapSeed uint64 `json:"map_seed"`
	}
	if err := json.Unmarshal(in, &req); err != nil {
		return "bad solo request"
	}
	data, err := os.ReadFile(req.Path)
	if err != nil {
		return "solo: " + err.Error()
	}
	t := zzsimrt.NewTask(0, req.MapSeed)
	zzsimrt.Enter(t)
	defer zzsimrt.Leave()
	return docpool.RunOp(t, req.Op, req.Path, data, 0)
}

var _ = sort.Strings
var _ = strings.TrimSpace
