package c02

import (
	"bytes"
	"fmt"
	"io"
	"strings"

	"github.com/tsawler/tabula"
	"github.com/tsawler/tabula/contentstream"
	"github.com/tsawler/tabula/core"
	"github.com/tsawler/tabula/docx"
	"github.com/tsawler/tabula/epubdoc"
	"github.com/tsawler/tabula/font"
	"github.com/tsawler/tabula/format"
	"github.com/tsawler/tabula/htmldoc"
	"github.com/tsawler/tabula/odt"
	"github.com/tsawler/tabula/pptx"
	"github.com/tsawler/tabula/rag"
	"github.com/tsawler/tabula/reader"
	"github.com/tsawler/tabula/text"
	"github.com/tsawler/tabula/xlsx"
	"github.com/tsawler/tabula/zzharness/faults"
	"github.com/tsawler/tabula/zzharness/sim"
)

// injector carries an in-flight fault to the stream entry points.
type injector struct {
	failAt int
	seed   uint64
	fired  bool
}

var extractorOps = []string{"x.text", "x.markdown", "x.markdownopts", "x.chunks", "x.chunkscfg", "x.document", "x.pagecount",
	"x.fragments", "x.lines", "x.paragraphs", "x.blocks", "x.elements", "x.analyze", "x.headings", "x.lists", "x.readingorder",
	"x.ischarlevel", "x.ismulticol", "x.text.nohf", "x.text.bycol", "x.text.preserve", "x.text.join", "x.text.pages1"}

// optionOps: the analysis and export entry points once more behind an option builder
// ("+nohf" = ExcludeHeadersAndFooters, "+pages1" = Pages(1), "+bycol" = ByColumn,
// "+join" = JoinParagraphs): options move work (and guards) around inside an operation.
var optionOps = []string{"x.analyze+nohf", "x.elements+nohf", "x.document+nohf", "x.chunks+nohf", "x.markdown+nohf", "x.lines+nohf",
	"x.paragraphs+nohf", "x.headings+nohf", "x.readingorder+nohf", "x.fragments+nohf", "x.blocks+nohf", "x.lists+nohf",
	"x.document+pages1", "x.chunks+pages1", "x.analyze+pages1", "x.fragments+pages1", "x.markdown+bycol", "x.document+join", "x.chunks+bycol"}

var streamOps = []string{"stream.html", "stream.htmldoc", "stream.parser", "stream.xref", "stream.epub", "stream.detect"}

func allOps(f string) []string {
	ops := append([]string{}, extractorOps...)
	ops = append(ops, optionOps...)
	switch f {
	case "pdf":
		ops = append(ops, "pdf.reader", "pdf.objects", "pdf.parser", "pdf.xref", "pdf.contentstream", "pdf.cmap", "pdf.streams")
	case "html":
		ops = append(ops, "html.string", "html.reader")
	default:
		ops = append(ops, f+".reader")
	}
	ops = append(ops, "detect")
	ops = append(ops, streamOps...)
	return ops
}

func cheapOps(f string) []string {
	switch f {
	case "pdf":
		return []string{"x.text", "x.chunks", "x.text.preserve", "pdf.reader", "pdf.objects"}
	case "html":
		return []string{"x.text", "html.string", "x.document"}
	}
	return []string{"x.text", "x.markdown", "x.document", f + ".reader"}
}

func isStreamOp(op string) bool { return strings.HasPrefix(op, "stream.") }

func hs(s string) uint64 { return sim.HashString(s) }

type seeker struct {
	*faults.SimReader
	data []byte
	pos  int64
}

// runOp executes one entry point on a (damaged) image and returns a hash of
// what it observed. Only the outcome kind matters for the verdict.
func runOp(op, path string, data []byte, inj *injector) (uint64, error) {
	if strings.HasPrefix(op, "x.") {
		return extractorOp(op, path)
	}
	newSim := func() *faults.SimReader {
		if inj == nil {
			return faults.NewSimReader(data, 1, -1)
		}
		return faults.NewSimReader(data, inj.seed, inj.failAt)
	}
	done := func(sr *faults.SimReader) {
		if inj != nil && sr.Fired {
			inj.fired = true
		}
	}
	switch op {
	case "detect":
		f, err := format.DetectFromReader(bytes.NewReader(data), int64(len(data)))
		_ = format.DetectFromMagic(data)
		return uint64(f), err
	case "stream.detect":
		ra := &faults.SimReaderAt{Data: data}
		if inj != nil {
			ra.FailOn = 1 + inj.failAt%6
		}
		f, err := format.DetectFromReader(ra, int64(len(data)))
		if inj != nil && ra.Fired {
			inj.fired = true
		}
		return uint64(f), err
	case "stream.epub":
		ra := &faults.SimReaderAt{Data: data}
		if inj != nil {
			ra.FailOn = 1 + inj.failAt%40
		}
		r, err := epubdoc.OpenReader(ra, int64(len(data)))
		if inj != nil && ra.Fired {
			inj.fired = true
		}
		if err != nil {
			return 0, err
		}
		defer r.Close()
		s, err := r.Text()
		return hs(s), err
	case "stream.html":
		sr := newSim()
		s, _, err := tabula.FromHTMLReader(sr).Text()
		done(sr)
		return hs(s), err
	case "stream.htmldoc":
		sr := newSim()
		r, err := htmldoc.OpenReader(sr)
		done(sr)
		if err != nil {
			return 0, err
		}
		s, err := r.Markdown()
		return hs(s), err
	case "stream.parser":
		sr := newSim()
		p := core.NewParser(sr)
		var h uint64
		var err error
		for i := 0; i < 2000; i++ {
			var o core.Object
			o, err = p.ParseObject()
			if err != nil {
				break
			}
			h = h*31 + uint64(o.Type())
		}
		done(sr)
		if err == io.EOF {
			err = nil
		}
		return h, err
	case "stream.xref":
		sr := newSim()
		sk := &simSeeker{sr: sr, data: data}
		tabs, err := core.NewXRefParser(sk).ParseAllXRefs()
		done(sr)
		return uint64(len(tabs)), err
	case "pdf.reader":
		r, err := reader.Open(path)
		if err != nil {
			return 0, err
		}
		defer r.Close()
		var h uint64
		n, err := r.PageCount()
		if err != nil {
			return 1, err
		}
		h = uint64(n)
		for i := 0; i < n && i < 50; i++ {
			pg, err := r.GetPage(i)
			if err != nil {
				return h, err
			}
			pg.MediaBox()
			pg.CropBox()
			pg.Rotate()
			pg.Resources()
			s, err := r.ExtractText(pg)
			h = h*31 + hs(s)
			if err != nil {
				return h, err
			}
			if _, err := r.ExtractPageImages(pg); err != nil {
				h++
			}
		}
		r.GetInfo()
		if _, err := r.ResolveDeep(r.Trailer()); err != nil {
			return h, err
		}
		return h, nil
	case "pdf.objects":
		r, err := reader.Open(path)
		if err != nil {
			return 0, err
		}
		defer r.Close()
		var h uint64
		n := r.NumObjects()
		if n > 500 || n < 0 {
			n = 500
		}
		var firstErr error
		for i := 0; i <= n; i++ {
			o, err := r.GetObject(i)
			if err != nil {
				if firstErr == nil {
					firstErr = err
				}
				continue
			}
			h = h*31 + uint64(o.Type())
			if st, ok := o.(*core.Stream); ok {
				d, _ := st.Decode()
				h += uint64(len(d))
			}
			if i%7 == 0 {
				r.ClearCache()
			}
		}
		return h, nil
	case "pdf.parser":
		p := core.NewParser(bytes.NewReader(data))
		var h uint64
		for i := 0; i < 5000; i++ {
			o, err := p.ParseObject()
			if err != nil {
				break
			}
			h = h*31 + uint64(o.Type())
		}
		// and as indirect objects from every "obj" keyword
		for off := 0; off < len(data); {
			k := bytes.Index(data[off:], []byte(" obj"))
			if k < 0 {
				break
			}
			start := off + k
			// back up over "N G"
			s := start
			for s > 0 && (data[s-1] == ' ' || data[s-1] >= '0' && data[s-1] <= '9') {
				s--
			}
			ip := core.NewParser(bytes.NewReader(data[s:]))
			if io, err := ip.ParseIndirectObject(); err == nil && io != nil {
				h += uint64(io.Ref.Number)
			}
			off = start + 4
		}
		return h, nil
	case "pdf.xref":
		tabs, err := core.NewXRefParser(bytes.NewReader(data)).ParseAllXRefs()
		if err != nil {
			return 0, err
		}
		m := core.MergeXRefTables(tabs...)
		return uint64(m.Size()), nil
	case "pdf.contentstream":
		ops, err := contentstream.NewParser(data).Parse()
		fr, _ := text.NewExtractor().ExtractFromBytes(data)
		return uint64(len(ops) + len(fr)), err
	case "pdf.cmap":
		cm, err := font.ParseToUnicodeCMap(&core.Stream{Dict: core.Dict{}, Data: data})
		if err != nil || cm == nil {
			return 0, err
		}
		return hs(cm.LookupString([]byte{0, 1, 2, 3, 65, 66, 255, 254})), nil
	case "pdf.streams":
		// every stream body of the image through Stream.Decode with the dictionary the file gives it
		var h uint64
		for off := 0; off < len(data); {
			k := bytes.Index(data[off:], []byte("stream"))
			if k < 0 {
				break
			}
			pos := off + k
			off = pos + 6
			if pos >= 3 && string(data[pos-3:pos]) == "end" {
				continue
			}
			ds := bytes.LastIndex(data[:pos], []byte("<<"))
			if ds < 0 {
				continue
			}
			dobj, err := core.NewParser(bytes.NewReader(data[ds:pos])).ParseObject()
			dict, ok := dobj.(core.Dict)
			if err != nil || !ok {
				continue
			}
			end := bytes.Index(data[pos:], []byte("endstream"))
			if end < 0 {
				end = len(data) - pos
			}
			body := data[pos+6 : pos+end]
			body = bytes.TrimLeft(body, "\r\n")
			st := &core.Stream{Dict: dict, Data: body}
			d, _ := st.Decode()
			h += uint64(len(d))
		}
		return h, nil
	case "html.string":
		s, _, err := tabula.FromHTMLString(string(data)).Text()
		m, _, _ := tabula.FromHTMLString(string(data)).ToMarkdown()
		d, _, _ := tabula.FromHTMLString(string(data)).Document()
		c, _, _ := tabula.FromHTMLString(string(data)).Chunks()
		n := 0
		if d != nil {
			n = len(d.Pages)
		}
		if c != nil {
			n += len(c.Chunks)
		}
		return hs(s) + hs(m) + uint64(n), err
	case "html.reader":
		r, err := htmldoc.Open(path)
		if err != nil {
			return 0, err
		}
		defer r.Close()
		var h uint64
		for _, mode := range []htmldoc.NavigationExclusionMode{htmldoc.NavigationExclusionNone, htmldoc.NavigationExclusionExplicit, htmldoc.NavigationExclusionStandard, htmldoc.NavigationExclusionAggressive} {
			o := htmldoc.ExtractOptions{NavigationExclusion: mode}
			s, _ := r.TextWithOptions(o)
			m, _ := r.MarkdownWithOptions(o)
			h += hs(s) + hs(m)
			r.DocumentWithOptions(o)
		}
		r.Metadata()
		return h, nil
	case "docx.reader":
		r, err := docx.Open(path)
		if err != nil {
			return 0, err
		}
		defer r.Close()
		s, _ := r.TextWithOptions(docx.ExtractOptions{ExcludeHeaders: true, ExcludeFooters: true})
		m, _ := r.Markdown()
		r.Document()
		r.Metadata()
		r.Tables()
		r.ModelTables()
		r.Lists()
		r.ModelLists()
		r.HeaderTexts()
		r.FooterTexts()
		return hs(s) + hs(m), nil
	case "odt.reader":
		r, err := odt.Open(path)
		if err != nil {
			return 0, err
		}
		defer r.Close()
		s, _ := r.TextWithOptions(odt.ExtractOptions{ExcludeHeaders: true, ExcludeFooters: true})
		m, _ := r.Markdown()
		r.Document()
		r.Metadata()
		r.Tables()
		r.ModelTables()
		r.Lists()
		r.HeaderTexts()
		return hs(s) + hs(m), nil
	case "xlsx.reader":
		r, err := xlsx.Open(path)
		if err != nil {
			return 0, err
		}
		defer r.Close()
		s, _ := r.Text()
		m, _ := r.Markdown()
		r.Document()
		r.Metadata()
		for i := -1; i <= r.SheetCount(); i++ {
			sh, err := r.Sheet(i)
			if err == nil && sh != nil {
				for y := -1; y < 4; y++ {
					for x := -1; x < 4; x++ {
						sh.Cell(y, x)
					}
				}
			}
		}
		for _, t := range r.Tables() {
			t.ToText()
			t.ToMarkdown()
		}
		return hs(s) + hs(m), nil
	case "pptx.reader":
		r, err := pptx.Open(path)
		if err != nil {
			return 0, err
		}
		defer r.Close()
		s, _ := r.Text()
		m, _ := r.Markdown()
		r.Document()
		r.Metadata()
		for i := -1; i <= r.SlideCount(); i++ {
			r.Slide(i)
		}
		return hs(s) + hs(m), nil
	case "epub.reader":
		r, err := epubdoc.Open(path)
		if err != nil {
			return 0, err
		}
		defer r.Close()
		s, _ := r.Text()
		m, _ := r.Markdown()
		r.Document()
		r.Metadata()
		r.Chapters()
		return hs(s) + hs(m), nil
	}
	return 0, fmt.Errorf("unknown op %s", op)
}

type simSeeker struct {
	sr   *faults.SimReader
	data []byte
	pos  int64
}

func (s *simSeeker) Read(p []byte) (int, error) {
	// reads are served by a fresh simulated reader positioned at pos (chunking and
	// the injected failure offset are kept)
	if s.sr.FailAt >= 0 && int(s.pos) >= s.sr.FailAt {
		s.sr.Fired = true
		return 0, s.sr.Err
	}
	if int(s.pos) >= len(s.data) {
		return 0, io.EOF
	}
	n := copy(p, s.data[s.pos:])
	if n > 37 {
		n = 37 // short reads are legal for an io.Reader
	}
	if s.sr.FailAt >= 0 && int(s.pos)+n > s.sr.FailAt {
		n = s.sr.FailAt - int(s.pos)
	}
	s.pos += int64(n)
	return n, nil
}

func (s *simSeeker) Seek(off int64, whence int) (int64, error) {
	switch whence {
	case io.SeekStart:
		s.pos = off
	case io.SeekCurrent:
		s.pos += off
	case io.SeekEnd:
		s.pos = int64(len(s.data)) + off
	}
	if s.pos < 0 {
		s.pos = 0
		return 0, fmt.Errorf("negative position")
	}
	return s.pos, nil
}

func extractorOp(op, path string) (uint64, error) {
	e := tabula.Open(path)
	if i := strings.IndexByte(op, '+'); i > 0 {
		switch op[i+1:] {
		case "nohf":
			e = e.ExcludeHeadersAndFooters()
		case "pages1":
			e = e.Pages(1)
		case "bycol":
			e = e.ByColumn()
		case "join":
			e = e.JoinParagraphs()
		}
		op = op[:i]
	}
	switch op {
	case "x.text":
		s, _, err := e.Text()
		return hs(s), err
	case "x.text.nohf":
		s, _, err := e.ExcludeHeadersAndFooters().Text()
		return hs(s), err
	case "x.text.bycol":
		s, _, err := e.ByColumn().Text()
		return hs(s), err
	case "x.text.preserve":
		s, _, err := e.PreserveLayout().Text()
		return hs(s), err
	case "x.text.join":
		s, _, err := e.JoinParagraphs().ExcludeHeaders().Text()
		return hs(s), err
	case "x.text.pages1":
		s, _, err := e.Pages(1).Text()
		return hs(s), err
	case "x.markdown":
		s, _, err := e.ToMarkdown()
		return hs(s), err
	case "x.markdownopts":
		s, _, err := e.ToMarkdownWithOptions(rag.MarkdownOptions{IncludeMetadata: true, IncludeTableOfContents: true, HeadingLevelOffset: 1, MaxHeadingLevel: 3,
			IncludeChunkSeparators: true, IncludePageNumbers: true, IncludeChunkIDs: true})
		return hs(s), err
	case "x.chunks":
		c, _, err := e.Chunks()
		if err != nil || c == nil {
			return 0, err
		}
		j, _ := c.ToJSONL()
		v, _ := c.ToCSV()
		return hs(j) + hs(v), nil
	case "x.chunkscfg":
		cfg := rag.DefaultChunkerConfig()
		cfg.TargetChunkSize, cfg.MaxChunkSize, cfg.OverlapSize = 40, 80, 10
		c, _, err := e.ChunksWithConfig(cfg, rag.DefaultSizeConfig())
		if err != nil || c == nil {
			return 0, err
		}
		return uint64(len(c.Chunks)), nil
	case "x.document":
		d, _, err := e.Document()
		if err != nil || d == nil {
			return 0, err
		}
		return uint64(len(d.Pages)), nil
	case "x.pagecount":
		defer e.Close()
		n, err := e.PageCount()
		return uint64(n), err
	case "x.fragments":
		f, _, err := e.Fragments()
		return uint64(len(f)), err
	case "x.lines":
		l, err := e.Lines()
		return uint64(len(l)), err
	case "x.paragraphs":
		l, err := e.Paragraphs()
		return uint64(len(l)), err
	case "x.blocks":
		l, err := e.Blocks()
		return uint64(len(l)), err
	case "x.elements":
		l, err := e.Elements()
		return uint64(len(l)), err
	case "x.analyze":
		a, err := e.Analyze()
		if a == nil {
			return 0, err
		}
		return 1, err
	case "x.headings":
		l, err := e.Headings()
		return uint64(len(l)), err
	case "x.lists":
		l, err := e.Lists()
		return uint64(len(l)), err
	case "x.readingorder":
		ro, err := e.ReadingOrder()
		if ro == nil {
			return 0, err
		}
		return 1, err
	case "x.ischarlevel":
		defer e.Close()
		b, err := e.IsCharacterLevel()
		if b {
			return 1, err
		}
		return 0, err
	case "x.ismulticol":
		defer e.Close()
		b, err := e.IsMultiColumn()
		if b {
			return 1, err
		}
		return 0, err
	}
	return 0, fmt.Errorf("unknown extractor op %s", op)
}
