// Package c02 decides property C02: no input can crash, hang or exhaust the
// process. A simulated disk applies every single fault of the catalogue (and
// seeded double faults) to valid stored documents of all seven formats; every
// public entry point that accepts the damaged image must return a value or an
// error within deterministic step, allocation and stack bounds.
package c02

import (
	"fmt"
	"os"
	"sort"
	"strings"

	"github.com/tsawler/tabula/zzharness/faults"
	"github.com/tsawler/tabula/zzharness/officew"
	"github.com/tsawler/tabula/zzharness/pdfw"
	"github.com/tsawler/tabula/zzharness/sim"
	"github.com/tsawler/tabula/zzsimrt"
)

var Formats = []string{"pdf", "docx", "odt", "xlsx", "pptx", "epub", "html"}

// slots maps a run index to a format.
var slots = []string{"pdf", "docx", "odt", "xlsx", "pptx", "epub", "html", "pdf"}

type Spec struct {
	Format  string           `json:"format"`
	DocSeed uint64           `json:"doc_seed"`
	Sets    [][]faults.Fault `json:"sets"` // each set (1 or 2 faults) is applied to the pristine image
	Ops     []string         `json:"ops"`  // empty = every entry point for the format
	Block   int              `json:"block"`
	Kind    string           `json:"kind"` // singles | doubles | inflight | handmade
	WrongExt string          `json:"wrong_ext,omitempty"`
	NBlocks  int             `json:"n_blocks,omitempty"` // singles: how many blocks the document's enumeration has
	Curated  int             `json:"curated,omitempty"` // PDF: 1 or 2 = one of the hand-picked layouts, 0 = drawn from the seed
	FirstPairBlock bool      `json:"first_pair_block,omitempty"`
}

type Prop struct {
	baseline map[string]baselineEntry
}

type baselineEntry struct {
	steps int64
	out   uint64
}

func New() *Prop        { return &Prop{baseline: map[string]baselineEntry{}} }
func (*Prop) ID() string { return "C02" }

// ---- documents ----

type document struct {
	format string
	ext    string
	data   []byte
	pkg    *officew.Package // zip formats
	pdf    *pdfw.DocSpec
}

func smallPDFSpec(r *sim.Rand) pdfw.DocSpec {
	sp := pdfw.RandomSpec(r)
	// keep images small so that single faults can be enumerated
	sp.Pages = 1 + r.Intn(2)
	sp.Lines = 1 + r.Intn(3)
	sp.BigStream = 0
	sp.Bulk = 0
	if len(sp.FontKinds) > 2 {
		sp.FontKinds = sp.FontKinds[:2]
	}
	if sp.Revisions > 2 {
		sp.Revisions = 2
		sp.RevOps = sp.RevOps[:2]
		sp.XRef = sp.XRef[:3]
	}
	sp.Renumber = false
	return sp
}

// The first two enumerated PDF documents of a batch use hand-picked layouts, so
// that even the quick tier covers the features whose fields matter most.
func curatedPDFSpec(k int, seed uint64) pdfw.DocSpec {
	if k == 0 {
		// cross-reference stream, object streams (incl. the length object), PNG predictor,
		// indirect /Length, Type0 font with ToUnicode, a form XObject that invokes two more, one incremental update
		return pdfw.DocSpec{Seed: seed, Pages: 2, Lines: 4, FormNest: 2, FontKinds: []int{pdfw.FontType0Identity, pdfw.FontStdWinAnsi}, XRef: []int{1, 1},
			ObjStm: 2, ObjStmN: 1, ObjStmZ: true, XRefZ: 2, LenMode: 1, LenInStm: true, Filter: 1, Predictor: 12, TreeDepth: 2, InheritAt: 1,
			ResIndirect: true, FontPartsIndirect: true, FormXObj: true, TextOps: 2, Revisions: 1, RevOps: []int{0}, ForceCMapForm: 2}
	}
	// classic table, embedded TrueType font program, TIFF predictor, filter chain on other streams via split content, deep tree, kids by reference
	return pdfw.DocSpec{Seed: seed, Pages: 3, Lines: 2, FontKinds: []int{pdfw.FontSimpleToUni, pdfw.FontTrueTypeWin}, XRef: []int{0, 0},
		Filter: 1, Predictor: 2, Split: 2, ContentsArr: true, ContentsRef: true, TreeDepth: 3, InheritAt: 2, KidsRef: true, Rotate: 90,
		LenMode: 2, TextOps: 1, Revisions: 1, RevOps: []int{2}, DictBreak: true, ForceCMapForm: 3, ForceEmbed: true}
}

func makeDoc(format string, seed uint64, curated int) *document {
	r := sim.NewRand(sim.Mix(seed ^ sim.HashString(format)))
	d := &document{format: format, ext: "." + format}
	switch format {
	case "pdf":
		sp := smallPDFSpec(r)
		if curated > 0 {
			sp = curatedPDFSpec(curated-1, sp.Seed)
		}
		d.pdf = &sp
		d.data = pdfw.Generate(sp).Built.Bytes
	case "docx":
		d.pkg = officew.DOCX(r)
	case "odt":
		d.pkg = officew.ODT(r)
	case "xlsx":
		d.pkg = officew.XLSX(r)
	case "pptx":
		d.pkg = officew.PPTX(r)
	case "epub":
		d.pkg = officew.EPUB(r)
	case "html":
		d.data = officew.HTML(r)
	}
	if d.pkg != nil {
		d.data = d.pkg.Bytes()
	}
	return d
}

// enumerate lists every single fault of the catalogue for a document.
func enumerate(d *document) []faults.Fault {
	var out []faults.Fault
	switch d.format {
	case "pdf":
		out = append(out, faults.EnumPDFFields(*d.pdf)...)
		out = append(out, faults.EnumPDFTokens(d.data)...)
		out = append(out, faults.EnumBytesLimits(d.data, 8192, 4096)...)
	case "html":
		out = append(out, faults.EnumMarkup(d.data, "")...)
		out = append(out, faults.EnumBytes(d.data, 4096)...)
		// depth is kept moderate: the HTML parser of golang.org/x/net v0.20.0 (a dependency, not
		// instrumented) is quadratic in nesting depth, which is slow but not non-termination
		for _, depth := range []int{100, 1000, 5000} {
			out = append(out, faults.Fault{Layer: "token", Kind: "append", S: faults.DeepNesting("<div>", "</div>", depth)},
				faults.Fault{Layer: "token", Kind: "append", S: faults.DeepNesting("<ul><li>", "</li></ul>", depth/2)},
				faults.Fault{Layer: "token", Kind: "append", S: faults.DeepNesting("<table><tr><td>", "</td></tr></table>", depth/4)},
				faults.Fault{Layer: "token", Kind: "append", S: faults.DeepNesting("<b>", "", depth)})
		}
	default:
		out = append(out, faults.EnumZip(d.pkg)...)
		for _, m := range d.pkg.Members {
			if strings.HasSuffix(m.Name, ".xml") || strings.HasSuffix(m.Name, ".rels") || strings.HasSuffix(m.Name, ".xhtml") ||
				strings.HasSuffix(m.Name, ".opf") || strings.HasSuffix(m.Name, ".ncx") {
				out = append(out, faults.EnumMarkup(m.Data, m.Name)...)
			}
		}
		out = append(out, faults.EnumBytes(d.data, 2048)...)
	}
	return out
}

// apply produces the damaged image for a fault set.
func apply(d *document, set []faults.Fault) []byte {
	var pkgFaults, pdfFaults, byteFaults []faults.Fault
	var htmlRename []string
	for _, f := range set {
		switch f.Layer {
		case "zip":
			pkgFaults = append(pkgFaults, f)
		case "xml":
			if d.pkg != nil {
				pkgFaults = append(pkgFaults, f)
			} else if f.Kind == "idref-family-renamed" {
				htmlRename = append(htmlRename, f.S)
			} else {
				byteFaults = append(byteFaults, faults.Fault{Layer: "token", Kind: "replace", A: f.A, B: f.B, S: f.S})
			}
		case "pdfobj":
			pdfFaults = append(pdfFaults, f)
		default:
			byteFaults = append(byteFaults, f)
		}
	}
	img := d.data
	for _, fam := range htmlRename {
		img = faults.RenameFamily(img, fam)
	}
	if len(pkgFaults) > 0 && d.pkg != nil {
		img = faults.ApplyPackage(d.pkg, pkgFaults)
	}
	if len(pdfFaults) > 0 && d.pdf != nil {
		img = faults.ApplyPDFFields(*d.pdf, pdfFaults)
	}
	// byte-level faults in descending offset order so that earlier edits do not shift later ones
	sort.SliceStable(byteFaults, func(i, j int) bool { return byteFaults[i].A > byteFaults[j].A })
	for _, f := range byteFaults {
		img = faults.ApplyBytes(img, f)
	}
	return img
}

const blockSize = 48

// maxBadPerRun: a run stops evaluating after this many violations (each hang costs
// the full step budget; the tree is failing anyway and the rest is reported by later runs).
const maxBadPerRun = 5

func docsPerFormat(tier string) int {
	if tier == "thorough" {
		return 40
	}
	return 2
}

func (p *Prop) Generate(base uint64, index int, env *sim.Env) *sim.Case {
	seed := sim.RunSeed(base, "C02", index)
	r := sim.NewRand(seed)
	// PDF has by far the largest fault catalogue: it gets two of every eight runs
	slot := index % len(slots)
	format := slots[slot]
	j := index / len(slots)
	if format == "pdf" {
		j *= 2
		if slot != 0 {
			j++
		}
	}
	if only := os.Getenv("ZZ_C02_FORMAT"); only != "" {
		// development aid: restrict a batch to one format (never set by the registered commands)
		format, j = only, index
	}
	D := docsPerFormat(env.Tier)
	docIdx := j % D
	block := j / D
	docSeed := sim.RunSeed(base, "C02-doc-"+format, docIdx)
	c := &sim.Case{Prop: "C02", Seed: seed, Index: index}
	sp := Spec{Format: format, DocSeed: docSeed, Block: block}
	if format == "pdf" && docIdx < 2 {
		sp.Curated = docIdx + 1
	}
	d := makeDoc(format, docSeed, sp.Curated)
	all := enumerate(d)
	nBlocks := (len(all) + blockSize - 1) / blockSize
	var pairs [][]faults.Fault
	if format == "pdf" {
		pairs = faults.EnumPDFPairs(*d.pdf)
	}
	nPairBlocks := (len(pairs) + blockSize - 1) / blockSize
	switch {
	case block >= nBlocks && block < nBlocks+nPairBlocks:
		sp.Kind = "pairs"
		sp.NBlocks = nPairBlocks
		c.Mode = "pairs"
		b := block - nBlocks
		sp.Sets = append(sp.Sets, pairs[b*blockSize:sim.MinInt(len(pairs), (b+1)*blockSize)]...)
		sp.Ops = cheapOps(format)
		sp.FirstPairBlock = b == 0
	case block < nBlocks:
		sp.Kind = "singles"
		sp.NBlocks = nBlocks
		c.Mode = "singles"
		for _, f := range all[block*blockSize : sim.MinInt(len(all), (block+1)*blockSize)] {
			sp.Sets = append(sp.Sets, []faults.Fault{f})
		}
		if env.Tier != "thorough" {
			sp.Ops = cheapOps(format)
		}
	case (block-nBlocks-nPairBlocks)%4 == 3:
		sp.Kind = "inflight"
		c.Mode = "inflight"
		// in-flight faults on the public reader seams: sets carry the position
		for k := 0; k < 16; k++ {
			sp.Sets = append(sp.Sets, []faults.Fault{{Layer: "inflight", Kind: "read-error", A: int64(r.Intn(len(d.data) + 1)), B: int64(r.Uint64() >> 1)}})
		}
	default:
		sp.Kind = "doubles"
		c.Mode = "doubles"
		// a fresh document for doubles, so that they are not tied to the enumerated one
		sp.DocSeed = sim.RunSeed(base, "C02-dbl-"+format, int(r.Intn(64)))
		sp.Curated = 0
		d = makeDoc(format, sp.DocSeed, 0)
		all = enumerate(d)
		for k := 0; k < 24; k++ {
			a := sim.Pick(r, all)
			b := sim.Pick(r, all)
			if r.Pct(50) {
				// related structures: a neighbour in the enumeration touches the same object / member / region
				idx := r.Intn(len(all))
				a = all[idx]
				b = all[sim.MinInt(len(all)-1, idx+1+r.Intn(12))]
			}
			sp.Sets = append(sp.Sets, []faults.Fault{a, b})
		}
		if r.Pct(15) {
			others := []string{}
			for _, f := range Formats {
				if f != format {
					others = append(others, f)
				}
			}
			sp.WrongExt = sim.Pick(r, others)
		}
	}
	c.SetSpec(sp)
	return c
}

func (p *Prop) Execute(c *sim.Case, env *sim.Env) *sim.Result {
	var sp Spec
	c.GetSpec(&sp)
	res := &sim.Result{Status: "ok"}
	d := makeDoc(sp.Format, sp.DocSeed, sp.Curated)
	if img, ok := c.Images["pristine"]; ok {
		d.data = img
	}
	ops := sp.Ops
	if len(ops) == 0 {
		ops = allOps(sp.Format)
	}
	t := zzsimrt.NewTask(0, 0)
	zzsimrt.Enter(t)
	defer zzsimrt.Leave()
	ext := d.ext
	if sp.WrongExt != "" {
		ext = "." + sp.WrongExt
	}
	// baselines: the same operation on the undamaged image
	pristine := env.Disk.PutNamed("c02-pristine"+ext, d.data)
	base := map[string]baselineEntry{}
	for _, op := range ops {
		key := fmt.Sprintf("%s/%d/%s/%s", sp.Format, sp.DocSeed, ext, op)
		be, ok := p.baseline[key]
		if !ok {
			var h uint64
			oc := sim.Guard(t, 200_000_000, func() error { var err error; h, err = runOp(op, pristine, d.data, nil); return err })
			be = baselineEntry{steps: oc.Steps, out: h ^ sim.HashString(oc.Kind)}
			if oc.Bad() {
				be.steps = 100000
			}
			p.baseline[key] = be
		}
		base[op] = be
	}
	var subs []*sim.Result
	nEval := 0
	for si, set := range sp.Sets {
		var img []byte
		inflight := len(set) == 1 && set[0].Layer == "inflight"
		if img, ok := c.Images[fmt.Sprintf("set%d", si)]; ok {
			_ = img
		}
		if inflight {
			img = d.data
		} else if pre, ok := c.Images[fmt.Sprintf("set%d", si)]; ok {
			img = pre
		} else {
			img = apply(d, set)
		}
		path := env.Disk.PutNamed("c02-damaged"+ext, img)
		for _, op := range ops {
			if inflight && !isStreamOp(op) {
				continue
			}
			// the bound must let every computation through whose length is polynomial in the
			// size of the damaged image (a sheet with a cell in row 65536 legitimately costs a
			// few hundred thousand steps) and stop those whose length is set by a number in the
			// file (2^31 iterations from a ten-digit field): 300 x baseline, scaled by the growth
			// of the image, plus 2*10^8 steps.
			ratio := int64(1)
			grown := len(img)
			for _, f := range set {
				if f.Kind == "stream-repeat" {
					grown += len(f.S) * int(f.B) // inserted before compression: the image hides it
				}
			}
			if len(d.data) > 0 && grown > len(d.data) {
				ratio = int64(grown/len(d.data)) + 1
			}
			// (squared: walking a subtree once per nesting level is quadratic and still terminates)
			budget := 300*base[op].steps*ratio*ratio + 200_000_000
			var h uint64
			var inj *injector
			if inflight {
				inj = &injector{failAt: int(set[0].A), seed: uint64(set[0].B)}
			}
			before := t.Total
			if len(subs) >= maxBadPerRun {
				res.Count("evaluations_skipped_after_many_violations", 1)
				continue
			}
			oc := sim.Guard(t, budget, func() error { var err error; h, err = runOp(op, path, img, inj); return err })
			nEval++
			if env.Tick != nil && (oc.Bad() || nEval%20 == 0) {
				// heartbeat: the wall-clock backstop of the runner is meant per evaluation, not
				// per run (a run of 48 fault sets x several entry points may legitimately take long)
				env.Tick()
			}
			res.Steps += t.Total - before
			key := "fault." + kindKey(set)
			res.Count(key+".injected", 1)
			if inflight {
				if inj.fired {
					res.Count(key+".fired", 1)
					if oc.Kind == "ok" && strings.HasPrefix(op, "stream.html") {
						// an injected read error must surface as an error, not as a silently shortened document;
						// that is C19's statement, counted here only
						res.Count("inflight.error-swallowed", 1)
					}
				}
			} else if h^sim.HashString(oc.Kind) != base[op].out {
				res.Count(key+".fired", 1) // the damage changed what the operation observed
			}
			res.Count("outcome."+oc.Kind, 1)
			if oc.Bad() {
				sub := &sim.Result{Status: "violation", Class: oc.Class(),
					Detail: fmt.Sprintf("%s on a damaged %s document (%s): %s %s\n  faults: %s\n  budget: %d steps (baseline %d)", op, sp.Format, oc.Kind, oc.Where, oc.Msg, setString(set), budget, base[op].steps)}
				ex := *c
				ex.Images = nil
				sp2 := sp
				sp2.Sets = [][]faults.Fault{set}
				sp2.Ops = []string{op}
				sp2.Kind = "handmade"
				ex.SetSpec(sp2)
				sub.Executed = &ex
				subs = append(subs, sub)
			}
		}
	}
	res.Count("evaluations", int64(nEval))
	if sp.Kind == "singles" {
		// how much of each document's exhaustive enumeration the batch covered
		res.Count("enum.blocks_done."+sp.Format, 1)
		if sp.Block == 0 {
			res.Count("enum.blocks_needed."+sp.Format, int64(sp.NBlocks))
		}
	}
	if sp.Kind == "pairs" {
		res.Count("enum.pair_blocks_done."+sp.Format, 1)
		if sp.FirstPairBlock {
			res.Count("enum.pair_blocks_needed."+sp.Format, int64(sp.NBlocks))
		}
	}
	res.Fingerprint = fmt.Sprintf("%s/%d/%s/%d/%s", sp.Format, sp.DocSeed, sp.Kind, sp.Block, sim.Dump(sp.Sets)[:sim.MinInt(60, len(sim.Dump(sp.Sets)))])
	res.Nontrivial = nEval > 0
	var sample []string
	for i, set := range sp.Sets {
		if i >= 4 {
			break
		}
		sample = append(sample, setString(set))
	}
	res.Sample = map[string]interface{}{"format": sp.Format, "kind": sp.Kind, "image_bytes": len(d.data), "fault_sets": sample, "ops": ops}
	if env.LogEvents {
		res.Log = append(res.Log, fmt.Sprintf("evals=%d steps=%d bad=%d", nEval, res.Steps, len(subs)))
	}
	if len(subs) > 0 {
		// one sub-result per distinct class; the first is the run's verdict
		seen := map[string]bool{}
		var uniq []*sim.Result
		for _, s := range subs {
			if !seen[s.Class] {
				seen[s.Class] = true
				uniq = append(uniq, s)
			}
		}
		res.Status, res.Class, res.Detail, res.Executed = "violation", uniq[0].Class, uniq[0].Detail, uniq[0].Executed
		res.More = uniq[1:]
		res.Count("bad_outcomes", int64(len(subs)))
	}
	return res
}

func kindKey(set []faults.Fault) string {
	var ks []string
	for _, f := range set {
		ks = append(ks, f.KindKey())
	}
	return strings.Join(ks, "+")
}

func setString(set []faults.Fault) string {
	var ss []string
	for _, f := range set {
		ss = append(ss, f.String())
	}
	return strings.Join(ss, " + ")
}

func (p *Prop) Shrink(c *sim.Case) []*sim.Case {
	var sp Spec
	c.GetSpec(&sp)
	var out []*sim.Case
	emit := func(s Spec) {
		n := *c
		n.Images = nil
		n.SetSpec(s)
		out = append(out, &n)
	}
	if len(sp.Sets) > 1 {
		for i := range sp.Sets {
			s := sp
			s.Sets = [][]faults.Fault{sp.Sets[i]}
			emit(s)
		}
	}
	if len(sp.Sets) == 1 && len(sp.Sets[0]) > 1 {
		for i := range sp.Sets[0] {
			s := sp
			s.Sets = [][]faults.Fault{{sp.Sets[0][i]}}
			emit(s)
		}
	}
	if len(sp.Ops) != 1 {
		ops := sp.Ops
		if len(ops) == 0 {
			ops = allOps(sp.Format)
		}
		for _, op := range ops {
			s := sp
			s.Ops = []string{op}
			emit(s)
		}
	}
	if sp.WrongExt != "" {
		s := sp
		s.WrongExt = ""
		emit(s)
	}
	return out
}

func (p *Prop) Finalise(c *sim.Case, env *sim.Env) {
	var sp Spec
	c.GetSpec(&sp)
	d := makeDoc(sp.Format, sp.DocSeed, sp.Curated)
	if c.Images == nil {
		c.Images = map[string][]byte{}
	}
	c.Images["pristine"] = d.data
	for i, set := range sp.Sets {
		if len(set) == 1 && set[0].Layer == "inflight" {
			continue
		}
		if i < 8 {
			c.Images[fmt.Sprintf("set%d", i)] = apply(d, set)
		}
	}
}

func (p *Prop) Probes(env *sim.Env) []*sim.Case { return nil }
