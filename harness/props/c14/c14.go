// Package c14 decides property C14 (chunk exports parse back to the same
// chunks) as far as simulation applies: exporting is writing to a sink that can
// fail, and the batch / streaming APIs are call histories with an exactly-once
// obligation. The simulated sink accepts b bytes and then fails (or fails once
// and recovers); the oracle parses what the sink holds with encoding/json and
// encoding/csv.
package c14

import (
	"bytes"
	"encoding/csv"
	"encoding/json"
	"errors"
	"fmt"
	"io"
	"os"
	"path/filepath"
	"strconv"
	"strings"

	"github.com/tsawler/tabula/rag"
	"github.com/tsawler/tabula/zzharness/sim"
	"github.com/tsawler/tabula/zzsimrt"
)

type Sink struct {
	Kind string `json:"kind"` // none fail-after fail-once devfull badpath
	At   int    `json:"at"`   // fail-after / fail-once: accept this many bytes first (scaled into the output length when negative class codes are used)
	Class string `json:"class,omitempty"` // how At was chosen: zero header record-middle record-boundary last never
}

type Spec struct {
	Seed      uint64 `json:"seed"`
	N         int    `json:"n"`
	Op        string `json:"op"` // export tofile batch stream pinecone chroma weaviate filter
	Format    int    `json:"format"` // 0 jsonl 1 json 2 csv 3 tsv
	Delim     string `json:"delim,omitempty"` // CSV: the configured delimiter when it is not the comma
	Flatten   bool   `json:"flatten"`
	Header    bool   `json:"header"`
	Pretty    bool   `json:"pretty"`
	IncludeText bool `json:"include_text"`
	IncludeMeta bool `json:"include_meta"`
	Fields    []string `json:"fields,omitempty"`
	FieldsSet bool     `json:"fields_set,omitempty"` // an include list is given (possibly empty: export no metadata fields)
	Preexisting int    `json:"preexisting,omitempty"` // tofile: the target already exists and is this many bytes longer than the export
	TextCol   string `json:"text_col"`
	IDCol     string `json:"id_col"`
	Batch     int    `json:"batch"`
	CallbackFailAt int `json:"callback_fail_at"` // -1 never
	Sink      Sink   `json:"sink"`
	Filter    string `json:"filter,omitempty"`
	FilterArg int    `json:"filter_arg,omitempty"`
	MissingEmb int   `json:"missing_emb"` // -1 none, else chunk index without embedding
	Huge       int   `json:"huge,omitempty"` // 1-based index of a chunk whose text is 33-70 KB (0 = none)
	ShortEmb   int   `json:"short_emb,omitempty"` // the embedding list is this many entries shorter than the chunk list
	StreamClose []int `json:"stream_close,omitempty"` // stream: positions at which Close is called in between
}

type Prop struct{}

func New() *Prop        { return &Prop{} }
func (*Prop) ID() string { return "C14" }

var hostile = []string{"plain", "comma,separated", "tab\tseparated", "quote\"inside", "'single'", "new\nline", "cr\rreturn", "crlf\r\nline",
	"nul\x00byte", "emoji 😀 非BMP 𝔘", "{\"json\":\"looking\"}", "[1,2,3]", "back\\slash", "pipe|bar", "  leading and trailing  ", "",
	"semi;colon", "=cmd|' /C calc'!A0", "<tag attr=\"v\">", "\u2028line sep", "é combining é", "null", "true", "12345", "-0.5e10", "#hash", "\ufeffbom",
	"ÉCOLE Ärger ΩMEGA", "straße İstanbul", "ǅ titlecase"}

func makeChunks(sp *Spec) ([]*rag.Chunk, [][]float64) {
	r := sim.NewRand(sp.Seed)
	pick := func() string {
		n := 1 + r.Intn(3)
		var parts []string
		for i := 0; i < n; i++ {
			parts = append(parts, sim.Pick(r, hostile))
		}
		return strings.Join(parts, sim.Pick(r, []string{" ", "", "\n"}))
	}
	var chunks []*rag.Chunk
	var embs [][]float64
	// chunk indices usually equal the position; merged or reordered collections carry
	// whatever indices their chunks were born with (including 0 at a later position)
	foreignIdx := r.Pct(30)
	for i := 0; i < sp.N; i++ {
		md := rag.ChunkMetadata{DocumentTitle: pick(), SectionTitle: pick(), PageStart: r.Intn(20), PageEnd: 0, ChunkIndex: i, TotalChunks: sp.N,
			HeadingLevel: r.Intn(4), HasTable: r.Bool(), HasList: r.Bool(), HasImage: r.Pct(20), CharCount: r.Intn(500), WordCount: r.Intn(90), EstimatedTokens: r.Intn(200)}
		md.PageEnd = md.PageStart + r.Intn(3)
		if foreignIdx {
			md.ChunkIndex = r.Intn(sp.N + 2)
			if r.Pct(30) {
				md.ChunkIndex = 0
			}
		}
		for k, m := 0, r.Intn(4); k < m; k++ {
			md.SectionPath = append(md.SectionPath, pick())
		}
		for k, m := 0, r.Intn(3); k < m; k++ {
			md.ElementTypes = append(md.ElementTypes, sim.Pick(r, []string{"paragraph", "table", "list", "heading", "image"}))
		}
		if r.Pct(30) {
			md.ParentID = pick()
		}
		id := "id-" + strconv.Itoa(i) + "-" + sim.Pick(r, hostile)
		if r.Pct(5) {
			id = pick()
		}
		text := pick() + " #" + strconv.Itoa(i)
		if sp.Huge == i+1 {
			// one record larger than any write buffer an exporter may keep
			text += " " + strings.Repeat(pick()+" long passage ", 2200+r.Intn(2000))
		}
		chunks = append(chunks, &rag.Chunk{ID: id, Text: text, Metadata: md})
		e := []float64{float64(i) + 0.5, -1.25, float64(r.Intn(1000)) / 8}
		if i == sp.MissingEmb {
			e = nil
		}
		embs = append(embs, e)
	}
	if sp.ShortEmb > 0 && sp.ShortEmb <= len(embs) {
		embs = embs[:len(embs)-sp.ShortEmb]
	}
	return chunks, embs
}

func config(sp *Spec) rag.ExportConfig {
	c := rag.DefaultExportConfig()
	c.Format = []rag.ExportFormat{rag.ExportFormatJSONL, rag.ExportFormatJSON, rag.ExportFormatCSV, rag.ExportFormatTSV}[sp.Format%4]
	c.FlattenMetadata = sp.Flatten
	c.IncludeHeader = sp.Header
	c.PrettyPrint = sp.Pretty
	c.IncludeText = sp.IncludeText
	c.IncludeMetadata = sp.IncludeMeta
	c.MetadataFields = sp.Fields
	if sp.FieldsSet && c.MetadataFields == nil {
		c.MetadataFields = []string{}
	}
	if sp.TextCol != "" {
		c.TextColumnName = sp.TextCol
	}
	if sp.IDCol != "" {
		c.ChunkIDColumnName = sp.IDCol
	}
	if sp.Format%4 == 3 {
		c.CSVDelimiter = '\t'
	}
	if sp.Format%4 == 2 && sp.Delim != "" {
		c.CSVDelimiter = []rune(sp.Delim)[0]
	}
	return c
}

func (p *Prop) Generate(base uint64, index int, env *sim.Env) *sim.Case {
	seed := sim.RunSeed(base, "C14", index)
	r := sim.NewRand(seed)
	sp := Spec{Seed: r.Uint64() | 1, N: r.Intn(41), Format: r.Intn(4), Flatten: r.Bool(), Header: r.Pct(70), Pretty: r.Pct(25),
		IncludeText: r.Pct(85), IncludeMeta: r.Pct(80), Batch: 1 + r.Intn(12), CallbackFailAt: -1, MissingEmb: -1}
	if r.Pct(10) {
		sp.N = sim.Pick(r, []int{0, 1, 2})
	}
	if r.Pct(3) {
		// a large collection (size-dependent code paths: sharding, pre-sizing, batching remainders)
		sp.N = 250 + r.Intn(400)
	}
	if r.Pct(4) && sp.N > 1 && sp.N < 60 {
		sp.Huge = 1 + r.Intn(sp.N)
	}
	if sp.Format == 2 && r.Pct(30) {
		sp.Delim = sim.Pick(r, []string{";", "|", "\t", ":", "~"})
	}
	if r.Pct(30) {
		all := []string{"document_title", "page_start", "chunk_index", "section_title", "section_path", "element_types", "level", "word_count", "parent_id", "heading_level", "total_chunks", "char_count", "estimated_tokens", "nonexistent"}
		for _, f := range all {
			if r.Pct(40) {
				sp.Fields = append(sp.Fields, f)
			}
		}
		sp.FieldsSet = true
		if r.Pct(15) {
			sp.Fields = nil // an explicit, empty include list: no metadata fields at all
		}
	}
	if r.Pct(25) {
		sp.TextCol = sim.Pick(r, []string{"content", "body", "Text Column", "t"})
		sp.IDCol = sim.Pick(r, []string{"id", "uid", "Chunk ID"})
	}
	sp.Op = sim.Pick(r, []string{"export", "export", "export", "tofile", "batch", "batch", "stream", "stream", "pinecone", "chroma", "weaviate", "filter"})
	c := &sim.Case{Prop: "C14", Seed: seed, Index: index, Mode: "fault-free"}
	if r.Pct(45) {
		c.Mode = "faults"
		sp.Sink.Kind = sim.Pick(r, []string{"fail-after", "fail-after", "fail-once"})
		sp.Sink.Class = sim.Pick(r, []string{"zero", "header", "record-middle", "record-boundary", "last", "never"})
		sp.Sink.At = r.Intn(1 << 20)
		if sp.Op == "tofile" {
			sp.Sink.Kind = sim.Pick(r, []string{"devfull", "badpath"})
		}
		if sp.Op == "batch" {
			sp.Sink.Kind = "none"
			sp.CallbackFailAt = r.Intn(6)
		}
		if sp.Op == "filter" {
			sp.Sink.Kind = "none"
			c.Mode = "fault-free"
		}
	}
	if sp.Op == "tofile" && r.Pct(50) {
		sp.Preexisting = 1 + r.Intn(500)
	}
	if sp.Op == "pinecone" && r.Pct(30) && sp.N > 0 {
		sp.MissingEmb = r.Intn(sp.N)
	}
	if (sp.Op == "pinecone" || sp.Op == "weaviate") && r.Pct(25) && sp.N > 0 {
		// fewer embeddings than chunks: the chunks beyond the list have none
		sp.ShortEmb = 1 + r.Intn(sim.MinInt(sp.N, 4))
	}
	if sp.Op == "filter" {
		sp.Filter = sim.Pick(r, []string{"section", "page", "pagerange", "elementtype", "tables", "lists", "images", "mintokens", "maxtokens", "search", "chain", "branch", "branch", "stateful"})
		sp.FilterArg = r.Intn(25)
	}
	if sp.Op == "stream" {
		for i := 0; i < sp.N; i++ {
			if r.Pct(10) {
				sp.StreamClose = append(sp.StreamClose, i)
			}
		}
		if sp.Format > 1 {
			sp.Format = r.Intn(2)
		}
	}
	c.SetSpec(sp)
	return c
}

// ---- the simulated sink ----

type simWriter struct {
	buf      bytes.Buffer
	kind     string
	at       int
	failed   bool // fail-once: already failed
	fired    bool
	writes   int
	boundaries []int // buffer length after each successful Write call
}

var errNoSpace = errors.New("simulated sink: no space left on device")

func (w *simWriter) Write(p []byte) (int, error) {
	w.writes++
	switch w.kind {
	case "fail-after":
		room := w.at - w.buf.Len()
		if room < len(p) {
			if room < 0 {
				room = 0
			}
			w.buf.Write(p[:room])
			w.fired = true
			return room, errNoSpace
		}
	case "fail-once":
		if !w.failed && w.buf.Len()+len(p) > w.at {
			w.failed = true
			w.fired = true
			return 0, errNoSpace // nothing accepted; later writes succeed
		}
	}
	w.buf.Write(p)
	w.boundaries = append(w.boundaries, w.buf.Len())
	return len(p), nil
}

// ---- parsing back ----

type record struct {
	id, text, title, section string
	pageStart, pageEnd, index int
	hasTable, hasList, hasImage bool
	meta map[string]interface{}
}

func normCRLF(s string) string { return strings.ReplaceAll(s, "\r\n", "\n") }

// parseJSONStream parses a stream of JSON values (JSON Lines, possibly indented).
func parseJSONStream(data []byte) ([]map[string]interface{}, error) {
	dec := json.NewDecoder(bytes.NewReader(data))
	var out []map[string]interface{}
	for {
		var v map[string]interface{}
		err := dec.Decode(&v)
		if err == io.EOF {
			return out, nil
		}
		if err != nil {
			return out, err
		}
		out = append(out, v)
	}
}

func str(v interface{}) string {
	s, _ := v.(string)
	return s
}

func num(v interface{}) int {
	f, _ := v.(float64)
	return int(f)
}

func boolean(v interface{}) bool {
	b, _ := v.(bool)
	return b
}

func checkJSONRecords(sp *Spec, recs []map[string]interface{}, chunks []*rag.Chunk) string {
	if len(recs) != len(chunks) {
		return fmt.Sprintf("%d records for %d chunks", len(recs), len(chunks))
	}
	for i, rec := range recs {
		c := chunks[i]
		if str(rec["id"]) != c.ID {
			return fmt.Sprintf("record %d: id %q, chunk id %q", i, str(rec["id"]), c.ID)
		}
		wantText := c.Text
		if !sp.IncludeText {
			wantText = ""
		}
		if str(rec["text"]) != wantText {
			return fmt.Sprintf("record %d: text %q, chunk text %q", i, str(rec["text"]), wantText)
		}
		if str(rec["document_title"]) != c.Metadata.DocumentTitle || str(rec["section_title"]) != c.Metadata.SectionTitle {
			return fmt.Sprintf("record %d: titles %q / %q, chunk %q / %q", i, str(rec["document_title"]), str(rec["section_title"]), c.Metadata.DocumentTitle, c.Metadata.SectionTitle)
		}
		if num(rec["page_start"]) != c.Metadata.PageStart || num(rec["page_end"]) != c.Metadata.PageEnd || num(rec["chunk_index"]) != c.Metadata.ChunkIndex {
			return fmt.Sprintf("record %d: pages/index %d-%d/%d, chunk %d-%d/%d", i, num(rec["page_start"]), num(rec["page_end"]), num(rec["chunk_index"]), c.Metadata.PageStart, c.Metadata.PageEnd, c.Metadata.ChunkIndex)
		}
		if boolean(rec["has_table"]) != c.Metadata.HasTable || boolean(rec["has_list"]) != c.Metadata.HasList || boolean(rec["has_image"]) != c.Metadata.HasImage {
			return fmt.Sprintf("record %d: has_* flags differ", i)
		}
		sp2, _ := rec["section_path"].([]interface{})
		if len(sp2) != len(c.Metadata.SectionPath) {
			return fmt.Sprintf("record %d: section_path has %d entries, chunk %d", i, len(sp2), len(c.Metadata.SectionPath))
		}
		for k := range sp2 {
			if str(sp2[k]) != c.Metadata.SectionPath[k] {
				return fmt.Sprintf("record %d: section_path[%d] %q, chunk %q", i, k, str(sp2[k]), c.Metadata.SectionPath[k])
			}
		}
		if sp.IncludeMeta {
			meta, _ := rec["metadata"].(map[string]interface{})
			want := func(field string) bool {
				if !sp.FieldsSet {
					return true
				}
				for _, f := range sp.Fields {
					if f == field {
						return true
					}
				}
				return false
			}
			if want("word_count") && c.Metadata.WordCount > 0 && num(meta["word_count"]) != c.Metadata.WordCount {
				return fmt.Sprintf("record %d: metadata.word_count %v, chunk %d", i, meta["word_count"], c.Metadata.WordCount)
			}
			if want("parent_id") && c.Metadata.ParentID != "" && str(meta["parent_id"]) != c.Metadata.ParentID {
				return fmt.Sprintf("record %d: metadata.parent_id %q, chunk %q", i, str(meta["parent_id"]), c.Metadata.ParentID)
			}
			if want("document_title") && c.Metadata.DocumentTitle != "" && str(meta["document_title"]) != c.Metadata.DocumentTitle {
				return fmt.Sprintf("record %d: metadata.document_title %q, chunk %q", i, str(meta["document_title"]), c.Metadata.DocumentTitle)
			}
			if sp.FieldsSet {
				for k := range meta {
					base := k
					if j := strings.IndexAny(k, "._"); j > 0 && sp.Flatten {
						base = k
					}
					ok := false
					for _, f := range sp.Fields {
						if base == f || strings.HasPrefix(base, f) {
							ok = true
						}
					}
					if !ok {
						return fmt.Sprintf("record %d: metadata has field %q outside the include list %v", i, k, sp.Fields)
					}
				}
			}
		}
	}
	return ""
}

func checkCSV(sp *Spec, data []byte, chunks []*rag.Chunk, cfg rag.ExportConfig) string {
	rd := csv.NewReader(bytes.NewReader(data))
	rd.Comma = cfg.CSVDelimiter
	rd.FieldsPerRecord = -1
	rd.LazyQuotes = false
	rows, err := rd.ReadAll()
	if err != nil {
		return "encoding/csv cannot read the output: " + err.Error()
	}
	if !sp.Header {
		if len(rows) != len(chunks) {
			return fmt.Sprintf("%d rows for %d chunks (no header)", len(rows), len(chunks))
		}
		// without a header only the row count and the id column (first) can be attributed
		for i, row := range rows {
			if len(row) == 0 || row[0] != normCRLF(chunks[i].ID) {
				return fmt.Sprintf("row %d: first field %q, chunk id %q", i, first(row), chunks[i].ID)
			}
		}
		return ""
	}
	if len(rows) == 0 {
		return "no header row"
	}
	hdr := rows[0]
	col := map[string]int{}
	for i, h := range hdr {
		if _, dup := col[h]; dup {
			return fmt.Sprintf("duplicate column %q", h)
		}
		col[h] = i
	}
	rows = rows[1:]
	if len(rows) != len(chunks) {
		return fmt.Sprintf("%d data rows for %d chunks", len(rows), len(chunks))
	}
	get := func(row []string, name string) (string, bool) {
		i, ok := col[name]
		if !ok || i >= len(row) {
			return "", false
		}
		return row[i], true
	}
	for i, row := range rows {
		if len(row) != len(hdr) {
			return fmt.Sprintf("row %d has %d fields, the header has %d", i, len(row), len(hdr))
		}
		c := chunks[i]
		if v, ok := get(row, cfg.ChunkIDColumnName); !ok || v != normCRLF(c.ID) {
			return fmt.Sprintf("row %d: %s = %q, chunk id %q", i, cfg.ChunkIDColumnName, v, c.ID)
		}
		if sp.IncludeText {
			if v, ok := get(row, cfg.TextColumnName); !ok || v != normCRLF(c.Text) {
				return fmt.Sprintf("row %d: %s = %q, chunk text %q", i, cfg.TextColumnName, v, c.Text)
			}
		}
		checks := []struct{ name, want string }{
			{"chunk_index", strconv.Itoa(c.Metadata.ChunkIndex)}, {"document_title", normCRLF(c.Metadata.DocumentTitle)},
			{"page_start", strconv.Itoa(c.Metadata.PageStart)}, {"page_end", strconv.Itoa(c.Metadata.PageEnd)},
			{"section_title", normCRLF(c.Metadata.SectionTitle)}, {"has_table", strconv.FormatBool(c.Metadata.HasTable)},
			{"has_list", strconv.FormatBool(c.Metadata.HasList)}, {"has_image", strconv.FormatBool(c.Metadata.HasImage)},
		}
		for _, ck := range checks {
			if v, ok := get(row, ck.name); !ok || v != ck.want {
				return fmt.Sprintf("row %d: column %s = %q, chunk has %q", i, ck.name, v, ck.want)
			}
		}
		if sp.IncludeMeta {
			// scalar metadata: a key that any chunk of this export carries must have its
			// column, and every row must hold its chunk's value (empty when the chunk has none)
			for _, sc := range scalarMeta(c) {
				if !fieldWanted(sp, sc.key) {
					continue
				}
				v, ok := get(row, "meta_"+sc.key)
				if !ok {
					if anyHas(chunks, sc.key) {
						return fmt.Sprintf("a chunk of this export has metadata %q but the output has no column meta_%s", sc.key, sc.key)
					}
					continue
				}
				if v != normCRLF(sc.val) {
					return fmt.Sprintf("row %d: meta_%s = %q, chunk has %q", i, sc.key, v, sc.val)
				}
			}
		}
	}
	return ""
}

type scalar struct{ key, val string }

// scalarMeta lists the scalar metadata of a chunk the way the exporter documents
// them: a key is present when its value is non-zero.
func scalarMeta(c *rag.Chunk) []scalar {
	itoa := func(n int) string {
		if n > 0 {
			return strconv.Itoa(n)
		}
		return ""
	}
	return []scalar{{"parent_id", c.Metadata.ParentID}, {"heading_level", itoa(c.Metadata.HeadingLevel)}, {"total_chunks", itoa(c.Metadata.TotalChunks)},
		{"char_count", itoa(c.Metadata.CharCount)}, {"word_count", itoa(c.Metadata.WordCount)}, {"estimated_tokens", itoa(c.Metadata.EstimatedTokens)}}
}

func anyHas(chunks []*rag.Chunk, key string) bool {
	for _, c := range chunks {
		for _, sc := range scalarMeta(c) {
			if sc.key == key && sc.val != "" {
				return true
			}
		}
	}
	return false
}

func fieldWanted(sp *Spec, key string) bool {
	if !sp.FieldsSet {
		return true
	}
	for _, f := range sp.Fields {
		if f == key {
			return true
		}
	}
	return false
}

func first(row []string) string {
	if len(row) == 0 {
		return ""
	}
	return row[0]
}

// checkOutput parses a complete export of chunks in the configured format.
func checkOutput(sp *Spec, data []byte, chunks []*rag.Chunk, cfg rag.ExportConfig) string {
	switch sp.Format % 4 {
	case 0:
		recs, err := parseJSONStream(data)
		if err != nil {
			return "encoding/json cannot read the output: " + err.Error()
		}
		return checkJSONRecords(sp, recs, chunks)
	case 1:
		var recs []map[string]interface{}
		if err := json.Unmarshal(data, &recs); err != nil {
			return "encoding/json cannot read the output: " + err.Error()
		}
		return checkJSONRecords(sp, recs, chunks)
	default:
		return checkCSV(sp, data, chunks, cfg)
	}
}

func (p *Prop) Execute(c *sim.Case, env *sim.Env) *sim.Result {
	var sp Spec
	c.GetSpec(&sp)
	res := &sim.Result{Status: "ok"}
	t := zzsimrt.NewTask(0, 0)
	zzsimrt.Enter(t)
	defer zzsimrt.Leave()
	chunks, embs := makeChunks(&sp)
	// exporting reads the chunks; it is not supposed to edit them (a later export or any
	// other use of the same collection would see the edit)
	snap := sim.Dump(chunks)
	cfg := config(&sp)
	var failClass, failDetail string
	done := func() *sim.Result {
		if failClass == "" && sp.Op != "filter" {
			if now := sim.Dump(chunks); now != snap {
				a, b := sim.DiffContext(snap, now)
				failClass, failDetail = sp.Op+":input-edited", fmt.Sprintf("the operation changed the chunks it was given\n  before: %s\n  after:  %s", a, b)
			}
		}
		return finish(res, &sp, c, t, failClass, failDetail)
	}
	fail := func(class, detail string) {
		if failClass == "" {
			failClass, failDetail = class, detail
		}
	}
	guard := func(f func() error) (sim.Outcome, bool) {
		oc := sim.Guard(t, 200_000_000, f)
		if oc.Bad() {
			fail(sp.Op+":"+oc.Kind, oc.Class()+" "+oc.Msg)
			return oc, false
		}
		return oc, true
	}
	// fault-free reference output (also fixes the byte position of the sink fault)
	var refOut []byte
	refExport := func() []byte {
		var b bytes.Buffer
		switch sp.Op {
		case "pinecone":
			rag.NewEmbeddingExporter().ExportForPinecone(chunks, embs, &b)
		case "chroma":
			rag.NewEmbeddingExporter().ExportForChroma(chunks, embs, &b)
		case "weaviate":
			rag.NewEmbeddingExporter().ExportForWeaviate(chunks, embs, "Chunk", &b)
		case "stream":
			se := rag.NewStreamExporterWithConfig(&b, cfg)
			for i, ch := range chunks {
				se.WriteChunk(ch, i)
			}
		default:
			rag.NewExporterWithConfig(cfg).Export(chunks, &b)
		}
		return b.Bytes()
	}
	if _, ok := guard(func() error { refOut = refExport(); return nil }); !ok {
		return done()
	}
	sink := &simWriter{kind: sp.Sink.Kind}
	if sp.Sink.Kind == "fail-after" || sp.Sink.Kind == "fail-once" {
		n := len(refOut)
		switch sp.Sink.Class {
		case "zero":
			sink.at = 0
		case "header":
			sink.at = sim.MinInt(n, 1+sp.Sink.At%20)
		case "record-boundary":
			// after a complete line
			var ends []int
			for i, b := range refOut {
				if b == '\n' {
					ends = append(ends, i+1)
				}
			}
			if len(ends) > 0 {
				sink.at = ends[sp.Sink.At%len(ends)]
			}
		case "last":
			sink.at = sim.MaxInt(0, n-1-sp.Sink.At%3)
		case "never":
			sink.at = n + 10
		default:
			if n > 0 {
				sink.at = sp.Sink.At % n
			}
		}
		res.Count("fault.sink."+sp.Sink.Kind+"."+sp.Sink.Class, 1)
	}

	switch sp.Op {
	case "export", "pinecone", "chroma", "weaviate":
		var err error
		if _, ok := guard(func() error {
			switch sp.Op {
			case "export":
				err = rag.NewExporterWithConfig(cfg).Export(chunks, sink)
			case "pinecone":
				err = rag.NewEmbeddingExporter().ExportForPinecone(chunks, embs, sink)
			case "chroma":
				err = rag.NewEmbeddingExporter().ExportForChroma(chunks, embs, sink)
			default:
				err = rag.NewEmbeddingExporter().ExportForWeaviate(chunks, embs, "Chunk", sink)
			}
			return nil
		}); !ok {
			break
		}
		if sink.fired {
			res.Count("fault.sink.fired", 1)
		}
		got := sink.buf.Bytes()
		switch {
		case sink.fired && sp.Sink.Kind == "fail-after" && err == nil:
			fail(sp.Op+":error-swallowed", fmt.Sprintf("the sink refused data after %d bytes (of %d) but the call reported success", sink.at, len(refOut)))
		case sink.fired && sp.Sink.Kind == "fail-once" && err == nil:
			// success after a failed write is only acceptable if the sink nevertheless holds a complete export
			if msg := p.checkWhole(&sp, got, chunks, embs, cfg); msg != "" {
				fail(sp.Op+":error-swallowed", fmt.Sprintf("one write of the sink failed (at byte %d) and the call reported success, but the sink does not hold a complete export: %s", sink.at, msg))
			}
		case err != nil && !sink.fired:
			fail(sp.Op+":spurious-error", fmt.Sprintf("export failed without any sink fault: %v", err))
		case err != nil:
			if sp.Sink.Kind == "fail-after" && !bytes.HasPrefix(refOut, got) {
				a, b := sim.DiffContext(string(refOut), string(got))
				fail(sp.Op+":not-a-prefix", fmt.Sprintf("what reached the sink before the failure is not a prefix of the fault-free output\n  fault-free: %s\n  sink:       %s", a, b))
			}
		default:
			if msg := p.checkWhole(&sp, got, chunks, embs, cfg); msg != "" {
				fail(sp.Op+":parse-back", msg)
			}
		}
	case "tofile":
		path := filepath.Join(env.Disk.Dir, "c14-export"+cfg.Format.FileExtension())
		switch sp.Sink.Kind {
		case "", "none":
			if sp.Preexisting > 0 {
				// the target exists already and is longer than what will be written
				os.WriteFile(path, bytes.Repeat([]byte("old export line, left over from an earlier run\n"), 1+(len(refOut)+sp.Preexisting)/48), 0o644)
			}
		case "devfull":
			os.Symlink("/dev/full", path)
		case "badpath":
			path = filepath.Join(env.Disk.Dir, "no-such-dir", "x.out")
		}
		var err error
		if _, ok := guard(func() error { err = rag.NewExporterWithConfig(cfg).ExportToFile(chunks, path); return nil }); !ok {
			break
		}
		switch sp.Sink.Kind {
		case "devfull":
			res.Count("fault.sink.fired", 1)
			if err == nil && len(refOut) > 0 {
				fail("tofile:error-swallowed", "every write to the target failed with ENOSPC (/dev/full) but ExportToFile reported success")
			}
		case "badpath":
			res.Count("fault.sink.fired", 1)
			if err == nil {
				fail("tofile:error-swallowed", "the target cannot be created but ExportToFile reported success")
			}
		default:
			if err != nil {
				fail("tofile:spurious-error", err.Error())
				break
			}
			data, _ := os.ReadFile(path)
			if msg := checkOutput(&sp, data, chunks, cfg); msg != "" {
				fail("tofile:parse-back", msg)
			}
		}
		if fds := env.Disk.OpenFDs(); len(fds) > 0 {
			fail("tofile:fd-leak", fmt.Sprintf("descriptors still open after ExportToFile: %v", fds))
		}
		os.Remove(path)
	case "batch":
		var delivered []rag.ExportBatch
		var err error
		calls := 0
		if _, ok := guard(func() error {
			err = rag.NewBatchExporterWithConfig(sp.Batch, cfg).Export(chunks, func(b rag.ExportBatch) error {
				calls++
				if sp.CallbackFailAt >= 0 && calls-1 == sp.CallbackFailAt {
					return errNoSpace
				}
				delivered = append(delivered, b)
				return nil
			})
			return nil
		}); !ok {
			break
		}
		expectBatches := (len(chunks) + sp.Batch - 1) / sp.Batch
		failed := sp.CallbackFailAt >= 0 && sp.CallbackFailAt < expectBatches
		if failed {
			res.Count("fault.callback.fired", 1)
			if err == nil {
				fail("batch:error-swallowed", fmt.Sprintf("the callback failed at batch %d but Export reported success", sp.CallbackFailAt))
			}
			if calls != sp.CallbackFailAt+1 {
				fail("batch:delivery-after-failure", fmt.Sprintf("the callback failed at batch %d but was called %d times", sp.CallbackFailAt, calls))
			}
			expectBatches = sp.CallbackFailAt
		} else if err != nil {
			fail("batch:spurious-error", err.Error())
		}
		if len(delivered) != expectBatches {
			fail("batch:count", fmt.Sprintf("%d batches delivered, expected %d (%d chunks, batch size %d)", len(delivered), expectBatches, len(chunks), sp.Batch))
			break
		}
		next := 0
		for bi, b := range delivered {
			end := sim.MinInt(len(chunks), next+sp.Batch)
			if b.StartIndex != next || b.EndIndex != end || b.ChunkCount != end-next || b.BatchNumber != bi {
				fail("batch:partition", fmt.Sprintf("batch %d covers [%d,%d) count %d number %d, expected [%d,%d)", bi, b.StartIndex, b.EndIndex, b.ChunkCount, b.BatchNumber, next, end))
				break
			}
			if msg := checkOutput(&sp, []byte(b.Data), chunks[next:end], cfg); msg != "" {
				fail("batch:parse-back", fmt.Sprintf("batch %d: %s", bi, msg))
				break
			}
			next = end
		}
	case "stream":
		se := rag.NewStreamExporterWithConfig(sink, cfg)
		var okChunks []*rag.Chunk
		closeAt := map[int]bool{}
		for _, i := range sp.StreamClose {
			closeAt[i] = true
		}
		aborted := false
		for i, ch := range chunks {
			var err error
			if _, ok := guard(func() error { err = se.WriteChunk(ch, i); return nil }); !ok {
				aborted = true
				break
			}
			if err == nil {
				okChunks = append(okChunks, ch)
			} else if !sink.fired {
				fail("stream:spurious-error", err.Error())
			}
			if closeAt[i] {
				guard(func() error { return se.Close() })
			}
		}
		if aborted {
			break
		}
		guard(func() error { se.Close(); return se.Close() })
		if sink.fired {
			res.Count("fault.sink.fired", 1)
		}
		got := sink.buf.Bytes()
		if sp.Sink.Kind == "fail-after" && sink.fired {
			// the sink holds complete records for the acknowledged chunks, then possibly a torn record
			if !bytes.HasPrefix(refOut, got) {
				fail("stream:not-a-prefix", "what reached the sink is not a prefix of the fault-free stream")
			}
			break
		}
		// none / fail-once: exactly the acknowledged chunks, once each, in order
		recs, err := parseJSONStream(got)
		if err != nil {
			fail("stream:parse-back", "encoding/json cannot read the stream: "+err.Error())
			break
		}
		if msg := checkJSONRecords(&sp, recs, okChunks); msg != "" {
			fail("stream:exactly-once", "the sink does not hold exactly the acknowledged chunks in order: "+msg)
		}
	case "filter":
		p.filterCheck(&sp, chunks, fail, guard)
	}
	return done()
}

func finish(res *sim.Result, sp *Spec, c *sim.Case, t *zzsimrt.Task, failClass, failDetail string) *sim.Result {
	res.Steps = t.Total
	res.Fingerprint = fmt.Sprintf("%s/%d/%v/%v/%v/%s.%s/%d/%d/%s", sp.Op, sp.Format, sp.Flatten, sp.Header, sp.Pretty, sp.Sink.Kind, sp.Sink.Class, sp.N, sp.Batch, sp.Filter)
	res.Nontrivial = sp.N > 0
	res.Features = []string{"op=" + sp.Op, "format=" + strconv.Itoa(sp.Format%4), "sink=" + sp.Sink.Kind}
	res.Sample = map[string]interface{}{"op": sp.Op, "chunks": sp.N, "format": sp.Format % 4, "flatten": sp.Flatten, "header": sp.Header, "pretty": sp.Pretty,
		"fields": sp.Fields, "sink": sp.Sink, "batch": sp.Batch, "callback_fail_at": sp.CallbackFailAt, "filter": sp.Filter}
	res.Count("op."+sp.Op, 1)
	if failClass != "" {
		res.Status = "violation"
		res.Class = failClass
		res.Detail = failDetail + fmt.Sprintf("\n  op=%s format=%d chunks=%d flatten=%v header=%v pretty=%v fields=%v sink=%+v batch=%d", sp.Op, sp.Format%4, sp.N, sp.Flatten, sp.Header, sp.Pretty, sp.Fields, sp.Sink, sp.Batch)
	}
	return res
}

// checkWhole parses a complete output of the chosen operation.
func (p *Prop) checkWhole(sp *Spec, got []byte, chunks []*rag.Chunk, embs [][]float64, cfg rag.ExportConfig) string {
	switch sp.Op {
	case "export":
		return checkOutput(sp, got, chunks, cfg)
	case "pinecone":
		var doc struct {
			Vectors []struct {
				ID       string                 `json:"id"`
				Values   []float64              `json:"values"`
				Metadata map[string]interface{} `json:"metadata"`
			} `json:"vectors"`
		}
		if err := json.Unmarshal(got, &doc); err != nil {
			return "encoding/json cannot read the output: " + err.Error()
		}
		var want []*rag.Chunk
		var wantE [][]float64
		for i, c := range chunks {
			if i < len(embs) && len(embs[i]) > 0 {
				want = append(want, c)
				wantE = append(wantE, embs[i])
			}
		}
		if len(doc.Vectors) != len(want) {
			return fmt.Sprintf("%d vectors for %d chunks with embeddings", len(doc.Vectors), len(want))
		}
		for i, v := range doc.Vectors {
			if v.ID != want[i].ID || str(v.Metadata["text"]) != want[i].Text || fmt.Sprint(v.Values) != fmt.Sprint(wantE[i]) {
				return fmt.Sprintf("vector %d does not carry chunk %q", i, want[i].ID)
			}
		}
	case "chroma":
		var doc struct {
			IDs       []string                 `json:"ids"`
			Documents []string                 `json:"documents"`
			Metadatas []map[string]interface{} `json:"metadatas"`
		}
		if err := json.Unmarshal(got, &doc); err != nil {
			return "encoding/json cannot read the output: " + err.Error()
		}
		if len(doc.IDs) != len(chunks) || len(doc.Documents) != len(chunks) || len(doc.Metadatas) != len(chunks) {
			return fmt.Sprintf("%d ids / %d documents / %d metadatas for %d chunks", len(doc.IDs), len(doc.Documents), len(doc.Metadatas), len(chunks))
		}
		for i, c := range chunks {
			if doc.IDs[i] != c.ID || doc.Documents[i] != c.Text || num(doc.Metadatas[i]["chunk_index"]) != c.Metadata.ChunkIndex || str(doc.Metadatas[i]["section_title"]) != c.Metadata.SectionTitle {
				return fmt.Sprintf("entry %d does not carry chunk %q", i, c.ID)
			}
		}
	case "weaviate":
		recs, err := parseJSONStream(got)
		if err != nil {
			return "encoding/json cannot read the output: " + err.Error()
		}
		if len(recs) != len(chunks) {
			return fmt.Sprintf("%d objects for %d chunks", len(recs), len(chunks))
		}
		for i, c := range chunks {
			props, _ := recs[i]["properties"].(map[string]interface{})
			if str(recs[i]["id"]) != c.ID || str(props["content"]) != c.Text || num(props["pageStart"]) != c.Metadata.PageStart {
				return fmt.Sprintf("object %d does not carry chunk %q", i, c.ID)
			}
			vec, has := recs[i]["vector"]
			switch {
			case i < len(embs) && len(embs[i]) > 0:
				var want []interface{}
				for _, f := range embs[i] {
					want = append(want, f)
				}
				if fmt.Sprint(vec) != fmt.Sprint(want) {
					return fmt.Sprintf("object %d (chunk %q) carries vector %v, its embedding is %v", i, c.ID, vec, embs[i])
				}
			case has && vec != nil:
				if l, ok := vec.([]interface{}); !ok || len(l) > 0 {
					return fmt.Sprintf("object %d (chunk %q) has no embedding but carries vector %v", i, c.ID, vec)
				}
			}
		}
	}
	return ""
}

func (p *Prop) filterCheck(sp *Spec, chunks []*rag.Chunk, fail func(string, string), guard func(func() error) (sim.Outcome, bool)) {
	cc := rag.NewChunkCollection(chunks)
	r := sim.NewRand(sp.Seed ^ 0xF11)
	var got *rag.ChunkCollection
	var pred func(*rag.Chunk) bool
	var again func() *rag.ChunkCollection // the same filter call once more (single filters)
	branchFail := ""
	anyTitle := func() string {
		if len(chunks) == 0 {
			return "x"
		}
		c := chunks[r.Intn(len(chunks))]
		if len(c.Metadata.SectionPath) > 0 && r.Bool() {
			return c.Metadata.SectionPath[r.Intn(len(c.Metadata.SectionPath))]
		}
		return c.Metadata.SectionTitle
	}
	inSection := func(c *rag.Chunk, s string) bool {
		if c.Metadata.SectionTitle == s {
			return true
		}
		for _, x := range c.Metadata.SectionPath {
			if x == s {
				return true
			}
		}
		return false
	}
	hasType := func(c *rag.Chunk, t string) bool {
		for _, x := range c.Metadata.ElementTypes {
			if x == t {
				return true
			}
		}
		return false
	}
	arg := sp.FilterArg
	if _, ok := guard(func() error {
		switch sp.Filter {
		case "section":
			s := anyTitle()
			got = cc.FilterBySection(s)
			again = func() *rag.ChunkCollection { return cc.FilterBySection(s) }
			pred = func(c *rag.Chunk) bool { return inSection(c, s) }
		case "page":
			got = cc.FilterByPage(arg)
			again = func() *rag.ChunkCollection { return cc.FilterByPage(arg) }
			pred = func(c *rag.Chunk) bool { return c.Metadata.PageStart <= arg && arg <= c.Metadata.PageEnd }
		case "pagerange":
			a, b := arg, arg+r.Intn(4)
			got = cc.FilterByPageRange(a, b)
			again = func() *rag.ChunkCollection { return cc.FilterByPageRange(a, b) }
			pred = func(c *rag.Chunk) bool { return c.Metadata.PageEnd >= a && c.Metadata.PageStart <= b }
		case "elementtype":
			ty := sim.Pick(r, []string{"paragraph", "table", "list", "heading", "image", "none"})
			got = cc.FilterByElementType(ty)
			again = func() *rag.ChunkCollection { return cc.FilterByElementType(ty) }
			pred = func(c *rag.Chunk) bool { return hasType(c, ty) }
		case "tables":
			got = cc.FilterWithTables()
			again = func() *rag.ChunkCollection { return cc.FilterWithTables() }
			pred = func(c *rag.Chunk) bool { return c.Metadata.HasTable }
		case "lists":
			got = cc.FilterWithLists()
			again = func() *rag.ChunkCollection { return cc.FilterWithLists() }
			pred = func(c *rag.Chunk) bool { return c.Metadata.HasList }
		case "images":
			got = cc.FilterWithImages()
			again = func() *rag.ChunkCollection { return cc.FilterWithImages() }
			pred = func(c *rag.Chunk) bool { return c.Metadata.HasImage }
		case "mintokens":
			got = cc.FilterByMinTokens(arg * 8)
			again = func() *rag.ChunkCollection { return cc.FilterByMinTokens(arg * 8) }
			pred = func(c *rag.Chunk) bool { return c.Metadata.EstimatedTokens >= arg*8 }
		case "maxtokens":
			got = cc.FilterByMaxTokens(arg * 8)
			again = func() *rag.ChunkCollection { return cc.FilterByMaxTokens(arg * 8) }
			pred = func(c *rag.Chunk) bool { return c.Metadata.EstimatedTokens <= arg*8 }
		case "search":
			kw := sim.Pick(r, []string{"COMMA", "quote", "#1", "😀", "\n", "json", "", "école", "ärger", "ωmega", "É", "STRASSE", "Ω"})
			got = cc.Search(kw)
			again = func() *rag.ChunkCollection { return cc.Search(kw) }
			pred = func(c *rag.Chunk) bool { return strings.Contains(strings.ToLower(c.Text), strings.ToLower(kw)) }
		case "stateful":
			// a predicate with memory (the first chunk of every section; at most three chunks
			// with tables): Filter asks it once per chunk, in order
			seen := map[string]bool{}
			tables := 0
			mk := func() func(*rag.Chunk) bool {
				seen, tables = map[string]bool{}, 0
				return func(c *rag.Chunk) bool {
					if c.Metadata.HasTable {
						tables++
						return tables <= 3
					}
					if seen[c.Metadata.SectionTitle] {
						return false
					}
					seen[c.Metadata.SectionTitle] = true
					return true
				}
			}
			got = cc.Filter(mk())
			pred = mk()
		case "branch":
			// an intermediate result used twice: both uses, and the intermediate result itself,
			// must be pure selections
			mid := cc.FilterWithTables()
			midBefore := append([]*rag.Chunk{}, mid.Chunks...)
			a := mid.Search("a")
			b := mid.FilterByMaxTokens(arg * 8)
			c2 := mid.Filter(func(c *rag.Chunk) bool { return c.Metadata.HasList })
			same := func(x, y []*rag.Chunk) bool {
				if len(x) != len(y) {
					return false
				}
				for i := range x {
					if x[i] != y[i] {
						return false
					}
				}
				return true
			}
			sel := func(p func(*rag.Chunk) bool) []*rag.Chunk {
				var out []*rag.Chunk
				for _, c := range chunks {
					if c.Metadata.HasTable && p(c) {
						out = append(out, c)
					}
				}
				return out
			}
			switch {
			case !same(mid.Chunks, midBefore):
				branchFail = "filtering an intermediate result changed the intermediate result"
			case !same(a.Chunks, sel(func(c *rag.Chunk) bool { return strings.Contains(strings.ToLower(c.Text), "a") })):
				branchFail = "FilterWithTables().Search(\"a\") is wrong once the intermediate result is filtered again"
			case !same(b.Chunks, sel(func(c *rag.Chunk) bool { return c.Metadata.EstimatedTokens <= arg*8 })):
				branchFail = "the second filter applied to the same intermediate result is wrong"
			case !same(c2.Chunks, sel(func(c *rag.Chunk) bool { return c.Metadata.HasList })):
				branchFail = "the third filter applied to the same intermediate result is wrong"
			}
			got = mid
			pred = func(c *rag.Chunk) bool { return c.Metadata.HasTable }
		default: // chain
			got = cc.FilterWithTables().FilterByMinTokens(arg).Filter(func(c *rag.Chunk) bool { return c.Metadata.ChunkIndex%2 == 0 })
			pred = func(c *rag.Chunk) bool { return c.Metadata.HasTable && c.Metadata.EstimatedTokens >= arg && c.Metadata.ChunkIndex%2 == 0 }
		}
		return nil
	}); !ok {
		return
	}
	if branchFail != "" {
		fail("filter:branch", branchFail)
		return
	}
	var want []*rag.Chunk
	for _, c := range chunks {
		if pred(c) {
			want = append(want, c)
		}
	}
	if len(got.Chunks) != len(want) {
		fail("filter:"+sp.Filter, fmt.Sprintf("filter %s returned %d chunks, %d satisfy the predicate", sp.Filter, len(got.Chunks), len(want)))
		return
	}
	for i := range want {
		if got.Chunks[i] != want[i] {
			fail("filter:"+sp.Filter, fmt.Sprintf("filter %s: position %d holds chunk %q, expected %q (order / selection)", sp.Filter, i, got.Chunks[i].ID, want[i].ID))
			return
		}
	}
	if len(cc.Chunks) != len(chunks) {
		fail("filter:mutated", "filtering changed the collection it was applied to")
		return
	}
	if again == nil || len(chunks) < 2 || !r.Pct(60) {
		return
	}
	// the collection changes between two uses of the same filter (its owner reorders it,
	// replaces a chunk, retitles a section - the length stays the same): the second answer
	// is about the collection as it is now
	switch r.Intn(3) {
	case 0:
		for i, j := 0, len(cc.Chunks)-1; i < j; i, j = i+1, j-1 {
			cc.Chunks[i], cc.Chunks[j] = cc.Chunks[j], cc.Chunks[i]
		}
	case 1:
		i, j := r.Intn(len(cc.Chunks)), r.Intn(len(cc.Chunks))
		cc.Chunks[i].Metadata.SectionTitle, cc.Chunks[j].Metadata.SectionTitle = cc.Chunks[j].Metadata.SectionTitle, cc.Chunks[i].Metadata.SectionTitle
		cc.Chunks[i].Metadata.SectionPath, cc.Chunks[j].Metadata.SectionPath = cc.Chunks[j].Metadata.SectionPath, cc.Chunks[i].Metadata.SectionPath
		cc.Chunks[i].Metadata.HasTable, cc.Chunks[j].Metadata.HasTable = cc.Chunks[j].Metadata.HasTable, cc.Chunks[i].Metadata.HasTable
		cc.Chunks[i].Metadata.PageStart, cc.Chunks[j].Metadata.PageStart = cc.Chunks[j].Metadata.PageStart, cc.Chunks[i].Metadata.PageStart
		cc.Chunks[i].Metadata.PageEnd, cc.Chunks[j].Metadata.PageEnd = cc.Chunks[j].Metadata.PageEnd, cc.Chunks[i].Metadata.PageEnd
	default:
		i, j := r.Intn(len(cc.Chunks)), r.Intn(len(cc.Chunks))
		cp := *cc.Chunks[j]
		cp.ID = cp.ID + "-copy"
		cc.Chunks[i] = &cp
	}
	var got2 *rag.ChunkCollection
	if _, ok := guard(func() error { got2 = again(); return nil }); !ok {
		return
	}
	var want2 []*rag.Chunk
	for _, c := range cc.Chunks {
		if pred(c) {
			want2 = append(want2, c)
		}
	}
	if len(got2.Chunks) != len(want2) {
		fail("filter:"+sp.Filter+":after-change", fmt.Sprintf("filter %s, asked again after the collection was changed in place, returned %d chunks, %d satisfy the predicate now", sp.Filter, len(got2.Chunks), len(want2)))
		return
	}
	for i := range want2 {
		if got2.Chunks[i] != want2[i] {
			fail("filter:"+sp.Filter+":after-change", fmt.Sprintf("filter %s, asked again after the collection was changed in place: position %d holds chunk %q, expected %q", sp.Filter, i, got2.Chunks[i].ID, want2[i].ID))
			return
		}
	}
}

func (p *Prop) Shrink(c *sim.Case) []*sim.Case {
	var sp Spec
	c.GetSpec(&sp)
	var out []*sim.Case
	emit := func(s Spec) {
		n := *c
		n.SetSpec(s)
		out = append(out, &n)
	}
	for _, n := range []int{0, 1, 2, sp.N / 2, sp.N - 1} {
		if n >= 0 && n < sp.N {
			s := sp
			s.N = n
			emit(s)
		}
	}
	if sp.Sink.Kind != "" && sp.Sink.Kind != "none" {
		s := sp
		s.Sink = Sink{Kind: "none"}
		emit(s)
	}
	if sp.Pretty {
		s := sp
		s.Pretty = false
		emit(s)
	}
	if sp.Delim != "" {
		s := sp
		s.Delim = ""
		emit(s)
	}
	if sp.Huge != 0 {
		s := sp
		s.Huge = 0
		emit(s)
	}
	if sp.Flatten {
		s := sp
		s.Flatten = false
		emit(s)
	}
	if sp.Fields != nil {
		s := sp
		s.Fields = nil
		emit(s)
	}
	if sp.TextCol != "" || sp.IDCol != "" {
		s := sp
		s.TextCol, s.IDCol = "", ""
		emit(s)
	}
	if sp.Batch > 1 {
		s := sp
		s.Batch = 1
		emit(s)
	}
	if len(sp.StreamClose) > 0 {
		s := sp
		s.StreamClose = nil
		emit(s)
	}
	if !sp.Header {
		s := sp
		s.Header = true
		emit(s)
	}
	return out
}

func (p *Prop) Finalise(c *sim.Case, env *sim.Env) {}

func (p *Prop) Probes(env *sim.Env) []*sim.Case { return nil }
