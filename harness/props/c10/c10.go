// Package c10 decides property C10: page selection and option chaining are
// algebraic; handles are released. A seeded program of builder, non-terminal,
// terminal and Close calls runs on up to four live extractor handles; every
// result is compared with a reference model (the library's own single-page
// results from fresh handles, composed), and the descriptor ledger is a
// conservation invariant after every call. A fault-injecting configuration
// damages the file at rest or replaces it by a file-system object fault.
package c10

import (
	"regexp"
	"fmt"
	"os"
	"path/filepath"
	"sort"
	"strconv"
	"strings"

	"github.com/tsawler/tabula"
	"github.com/tsawler/tabula/reader"
	"github.com/tsawler/tabula/zzharness/docpool"
	"github.com/tsawler/tabula/zzharness/officew"
	"github.com/tsawler/tabula/zzharness/pdfw"
	"github.com/tsawler/tabula/zzharness/sim"
	"github.com/tsawler/tabula/zzsimrt"
)

// Call is one step of the program.
type Call struct {
	Op    string `json:"op"`            // open fromreader derive count multicol charlevel text frags doc chunks markdown lines close
	H     int    `json:"h"`             // handle the call is made on (index into the handle table)
	Kind  string `json:"kind,omitempty"` // derive: pages range exh exf exhf join bycol preserve
	Pages []int  `json:"pages,omitempty"`
	A     int    `json:"a,omitempty"`
	B     int    `json:"b,omitempty"`
}

type Fault struct {
	Kind string `json:"kind"` // none truncate zero-sector bitflip directory dangling-symlink empty devnull page-unloadable
	At   int    `json:"at,omitempty"`
	Page int    `json:"page,omitempty"` // page-unloadable, set when the case is finalised: the 1-based page
}

type Spec struct {
	Doc    pdfw.DocSpec `json:"doc"`
	Other  string       `json:"other,omitempty"` // "" = PDF; html docx odt xlsx pptx epub: handle / ledger part only
	Prog   []Call       `json:"prog"`
	Fault  Fault        `json:"fault"`
	OtherSeed uint64    `json:"other_seed,omitempty"`
}

type Prop struct{}

func New() *Prop        { return &Prop{} }
func (*Prop) ID() string { return "C10" }

var deriveKinds = []string{"pages", "pages", "pages", "range", "range", "exh", "exf", "exhf", "join", "bycol", "preserve"}
var terminalOps = []string{"text", "text", "frags", "doc", "chunks", "markdown", "lines"}

func simpleDoc(r *sim.Rand) pdfw.DocSpec {
	sp := pdfw.DocSpec{Seed: r.Uint64() | 1, Pages: 2 + r.Intn(5), Lines: 1 + r.Intn(8), FontKinds: []int{pdfw.FontStdWinAnsi}, TreeDepth: 1 + r.Intn(2)}
	sp.XRef = []int{r.Intn(2)}
	if sp.XRef[0] == 1 && r.Bool() {
		sp.ObjStm = 1
		sp.ObjStmN = 1
	}
	if r.Pct(30) {
		sp.Filter = 1
	}
	if r.Pct(20) {
		sp.TextOps = 1
	}
	if r.Pct(4) {
		// a long document (anything an implementation does per so-many pages happens here)
		sp.Pages = 17 + r.Intn(30)
		sp.Lines = 1 + r.Intn(2)
	}
	sp.BlankPages = r.Pct(30)
	sp.Headings = r.Pct(40)
	sp.Superscripts = r.Pct(25)
	sp.GState = r.Pct(40)
	if r.Pct(35) {
		sp.FormXObj = true
		sp.FormNest = r.Intn(3)
		if sp.Lines < 4 {
			sp.Lines = 4
		}
	}
	if r.Pct(35) {
		sp.Running = 1 + r.Intn(5)
	}
	if r.Pct(35) {
		// several fonts that differ only in their encoding, written inline and mapped to the
		// same resource names differently on every page: per-page results then only compose
		// if nothing about fonts is carried from page to page
		sp.FontKinds = []int{pdfw.FontStdWinAnsi, pdfw.FontStdMacRoman}
		if r.Bool() {
			sp.FontKinds = append(sp.FontKinds, pdfw.FontSimpleToUni)
		}
		sp.FontsInline = r.Bool()
		sp.PageResVary = true
		sp.TreeDepth = 1
	}
	return sp
}

func (p *Prop) Generate(base uint64, index int, env *sim.Env) *sim.Case {
	seed := sim.RunSeed(base, "C10", index)
	r := sim.NewRand(seed)
	sp := Spec{Doc: simpleDoc(r.Split("doc"))}
	c := &sim.Case{Prop: "C10", Seed: seed, Index: index, Mode: "fault-free"}
	if r.Pct(25) {
		sp.Other = sim.Pick(r, []string{"html", "docx", "odt", "xlsx", "pptx", "epub"})
		sp.OtherSeed = r.Uint64()
	}
	if r.Pct(25) {
		c.Mode = "faults"
		sp.Fault.Kind = sim.Pick(r, []string{"truncate", "truncate", "zero-sector", "bitflip", "directory", "dangling-symlink", "empty", "devnull"})
		sp.Fault.At = r.Intn(1 << 20)
	} else if sp.Other == "" && r.Pct(20) {
		// one page cannot be loaded (the cross-reference entry of its content stream points
		// at another object); every other page is intact and must behave as in the intact file
		c.Mode = "faults"
		sp.Fault.Kind = "page-unloadable"
		sp.Fault.At = r.Intn(1 << 20)
	}
	pr := r.Split("prog")
	n := 3 + pr.Intn(22)
	nh := 0
	count := sp.Doc.Pages
	pageArg := func() int {
		switch pr.Intn(12) {
		case 0:
			return 0
		case 1:
			return -1 - pr.Intn(3)
		case 2:
			return count + 1 + pr.Intn(2)
		}
		return 1 + pr.Intn(count)
	}
	lastDerivedFrom := -1
	if sp.Other == "" && pr.Pct(12) {
		// sibling scenario: a parent whose selection was built up step by step, two children
		// that each add a different page, and every one of the three used afterwards - in any
		// order. (Configurations shared between relatives show up exactly here.)
		if sp.Doc.Pages < 5 {
			sp.Doc.Pages = 5 + pr.Intn(2)
			count = sp.Doc.Pages
		}
		perm := pr.Perm(count)
		sp.Prog = append(sp.Prog, Call{Op: "open", H: 0})
		parent := 0
		nh = 1
		if pr.Bool() {
			a := 1 + pr.Intn(count-4)
			sp.Prog = append(sp.Prog, Call{Op: "derive", H: 0, Kind: "range", A: a, B: a + 2})
			parent = nh
			nh++
			perm = nil
			for q := 1; q <= count; q++ {
				if q < a || q > a+2 {
					perm = append(perm, q-1)
				}
			}
		} else {
			for k := 0; k < 3; k++ {
				sp.Prog = append(sp.Prog, Call{Op: "derive", H: parent, Kind: "pages", Pages: []int{perm[k] + 1}})
				parent = nh
				nh++
			}
			perm = perm[3:]
		}
		c1, c2 := nh, nh+1
		sp.Prog = append(sp.Prog, Call{Op: "derive", H: parent, Kind: "pages", Pages: []int{perm[0] + 1}},
			Call{Op: "derive", H: parent, Kind: "pages", Pages: []int{perm[1] + 1}})
		nh += 2
		for _, h := range []int{c1, parent, c2} {
			sp.Prog = append(sp.Prog, Call{Op: sim.Pick(pr, []string{"text", "frags", "doc", "chunks"}), H: h})
		}
		n = pr.Intn(6)
	}
	if sp.Other == "" && nh == 0 && pr.Pct(8) && count >= 3 {
		// a selection built from both spellings, one after the other on one chain: single
		// pages, then a range (and the other way round) - every call adds to the selection
		sp.Prog = append(sp.Prog, Call{Op: "open", H: 0})
		a := 1 + pr.Intn(count)
		lo := 1 + pr.Intn(count-1)
		hi := lo + pr.Intn(count-lo+1)
		first := Call{Op: "derive", H: 0, Kind: "pages", Pages: []int{a}}
		second := Call{Op: "derive", H: 1, Kind: "range", A: lo, B: hi}
		if pr.Bool() {
			first, second = Call{Op: "derive", H: 0, Kind: "range", A: lo, B: hi}, Call{Op: "derive", H: 1, Kind: "pages", Pages: []int{a}}
		}
		sp.Prog = append(sp.Prog, first, second, Call{Op: sim.Pick(pr, []string{"text", "frags", "doc", "chunks"}), H: 2})
		nh = 3
	}
	for i := 0; i < n; i++ {
		if nh == 0 || (nh < 4 && pr.Pct(10)) {
			op := "open"
			if sp.Other == "" && pr.Pct(20) {
				op = "fromreader"
			}
			sp.Prog = append(sp.Prog, Call{Op: op, H: nh})
			nh++
			continue
		}
		h := pr.Intn(nh)
		if lastDerivedFrom >= 0 && pr.Pct(35) {
			h = lastDerivedFrom // a sibling from the same parent, or a longer chain
			if pr.Bool() {
				h = nh - 1
			}
		}
		switch x := pr.Intn(100); {
		case x < 35 && nh < 8:
			cl := Call{Op: "derive", H: h, Kind: sim.Pick(pr, deriveKinds)}
			switch cl.Kind {
			case "pages":
				k := pr.Intn(4)
				if pr.Pct(10) {
					k = 0
				}
				for j := 0; j < k; j++ {
					cl.Pages = append(cl.Pages, pageArg())
				}
				if pr.Pct(8) {
					// a list that looks like the whole document (as many entries as pages, from
					// the first to the last) but is not: a duplicate or a stray value inside
					cl.Pages = nil
					for q := 1; q <= count; q++ {
						cl.Pages = append(cl.Pages, q)
					}
					if count >= 3 {
						cl.Pages[1+pr.Intn(count-2)] = pageArg()
					}
				}
			case "range":
				cl.A, cl.B = pageArg(), pageArg()
				if pr.Pct(70) && cl.A > cl.B {
					cl.A, cl.B = cl.B, cl.A
				}
			}
			sp.Prog = append(sp.Prog, cl)
			lastDerivedFrom = h
			nh++
		case x < 50:
			sp.Prog = append(sp.Prog, Call{Op: sim.Pick(pr, []string{"count", "count", "multicol", "charlevel"}), H: h})
		case x < 88:
			sp.Prog = append(sp.Prog, Call{Op: sim.Pick(pr, terminalOps), H: h})
		default:
			sp.Prog = append(sp.Prog, Call{Op: "close", H: h})
		}
	}
	// final sweep: every handle is used once more, so that what happened to its relatives
	// in the meantime is observed
	for h := 0; h < nh; h++ {
		if pr.Pct(70) {
			sp.Prog = append(sp.Prog, Call{Op: sim.Pick(pr, []string{"text", "text", "frags", "doc"}), H: h})
		}
	}
	c.SetSpec(sp)
	return c
}

// ---- reference model ----

type handleModel struct {
	root    bool
	pages   []int // accumulated selection (1-based, as given)
	selCalls int  // number of Pages/PageRange calls made on the chain
	opts    map[string]bool
	fromReader bool
	holdsFD bool // the model's view: this handle keeps the file open
	mayHold bool // a non-terminal operation failed: the reader may or may not have been opened before the failure
}

func optKey(o map[string]bool) string {
	var ks []string
	for k, v := range o {
		if v {
			ks = append(ks, k)
		}
	}
	sort.Strings(ks)
	return strings.Join(ks, "+")
}

func applyOpts(e *tabula.Extractor, o map[string]bool) *tabula.Extractor {
	// a fixed order; the options commute
	for _, k := range []string{"exh", "exf", "join", "bycol", "preserve"} {
		if !o[k] {
			continue
		}
		switch k {
		case "exh":
			e = e.ExcludeHeaders()
		case "exf":
			e = e.ExcludeFooters()
		case "join":
			e = e.JoinParagraphs()
		case "bycol":
			e = e.ByColumn()
		case "preserve":
			e = e.PreserveLayout()
		}
	}
	return e
}

type runner struct {
	t      *zzsimrt.Task
	path   string
	count  int
	refs   map[string]string
	refErr map[string]bool
}

// terminal executes a terminal operation and renders its value canonically
// (warnings are not part of the comparison).
func terminal(e *tabula.Extractor, op string) (string, []int, error) {
	switch op {
	case "text":
		s, _, err := e.Text()
		return s, nil, err
	case "frags":
		f, _, err := e.Fragments()
		return sim.Dump(f), nil, err
	case "lines":
		l, err := e.Lines()
		return sim.Dump(l), nil, err
	case "markdown":
		s, _, err := e.ToMarkdown()
		return s, nil, err
	case "doc":
		d, _, err := e.Document()
		if err != nil || d == nil {
			return "", nil, err
		}
		var nums []int
		var b strings.Builder
		for _, pg := range d.Pages {
			nums = append(nums, pg.Number)
			b.WriteString(sim.Dump(pg.Elements))
			b.WriteString("\n")
		}
		// after a -1: the page each table-of-contents entry points to
		nums = append(nums, -1)
		for _, te := range d.TableOfContents() {
			nums = append(nums, te.Page)
		}
		return b.String(), nums, nil
	case "chunks":
		cc, _, err := e.Chunks()
		if err != nil || cc == nil {
			return "", nil, err
		}
		var nums []int
		for _, ch := range cc.Chunks {
			nums = append(nums, ch.Metadata.PageStart, ch.Metadata.PageEnd)
		}
		return strconv.Itoa(len(cc.Chunks)), nums, nil
	}
	return "", nil, fmt.Errorf("unknown terminal op %s", op)
}

// ref returns the library's own result for a single page from a fresh handle.
func (rn *runner) ref(page int, op string, opts map[string]bool) (string, bool) {
	key := fmt.Sprintf("%d/%s/%s", page, op, optKey(opts))
	if v, ok := rn.refs[key]; ok {
		return v, rn.refErr[key]
	}
	var out string
	var failed bool
	oc := sim.Guard(rn.t, 100_000_000, func() error {
		e := applyOpts(tabula.Open(rn.path), opts).Pages(page)
		s, _, err := terminal(e, op)
		out = s
		return err
	})
	if oc.Kind != "ok" {
		failed = true
	}
	rn.refs[key] = out
	rn.refErr[key] = failed
	return out, failed
}

// unloadablePage regenerates the document with the cross-reference entry of one
// page's (first) content stream pointing at the catalog. It returns the pristine
// bytes and 0 when the layout stores that stream inside an object stream.
func unloadablePage(doc pdfw.DocSpec, at int) ([]byte, int) {
	gen := pdfw.Generate(doc)
	if len(gen.PageContent) == 0 || doc.Revisions != 0 {
		return gen.Built.Bytes, 0
	}
	pg := at % len(gen.PageContent)
	pieces := gen.PageContent[pg]
	if len(pieces) == 0 {
		return gen.Built.Bytes, 0
	}
	victim := pieces[0]
	target, ok := gen.Built.Offsets[0][gen.Catalog]
	if _, plain := gen.Built.Offsets[0][victim]; !ok || !plain {
		return gen.Built.Bytes, 0
	}
	bad := pdfw.GenerateWith(doc, nil, nil, func(rev, num, off int) int {
		if num == victim {
			return target
		}
		return off
	})
	return bad.Built.Bytes, pg + 1
}

var markerRe = regexp.MustCompile(`#[0-9]+`)
var fragTextRe = regexp.MustCompile(`Text:"((?:[^"\\]|\\.)*)"`)

// foreignMarkers: every generated line ends in a marker "#<n>" that is unique in the
// document. It returns a marker of got that is on none of the pages in sel ("" if none).
func foreignMarkers(got string, sel []int, rn *runner) string {
	own := map[string]bool{}
	for _, pg := range sel {
		// the page's own markers are read off its fragments, joined in content order: the
		// assembled text may itself lose or move characters of a long line (C09's subject)
		s, failed := rn.ref(pg, "frags", map[string]bool{})
		if failed {
			return ""
		}
		var joined strings.Builder
		for _, fm := range fragTextRe.FindAllStringSubmatch(s, -1) {
			if t, err := strconv.Unquote("\"" + fm[1] + "\""); err == nil {
				joined.WriteString(t)
			} else {
				joined.WriteString(fm[1])
			}
		}
		for _, m := range markerRe.FindAllString(joined.String(), -1) {
			own[m] = true
		}
		// and off its assembled text as well (either spelling is the page's own)
		if st, failed := rn.ref(pg, "text", map[string]bool{}); !failed {
			for _, m := range markerRe.FindAllString(st, -1) {
				own[m] = true
			}
		}
	}
	for _, m := range markerRe.FindAllString(got, -1) {
		if own[m] {
			continue
		}
		// header / footer exclusion works on fragments and may cut the tail off a marker
		// ("#301" -> "#3" when "01" repeats at the same place on every page): what is left is
		// still the beginning of one of the selected pages' markers
		cut := false
		for o := range own {
			// (or one more digit stuck to it: a one-digit margin mark that the assembly put
			// right behind the marker)
			cut = cut || strings.HasPrefix(o, m) || (strings.HasPrefix(m, o) && len(m) == len(o)+1 && len(o) >= 4)
		}
		if !cut {
			return m
		}
	}
	return ""
}

func resolveSel(pages []int, count int) (sel []int, outOfRange bool) {
	seen := map[int]bool{}
	for _, p := range pages {
		if p < 1 || p > count {
			return nil, true
		}
		if !seen[p] {
			seen[p] = true
			sel = append(sel, p)
		}
	}
	sort.Ints(sel)
	return sel, false
}

func (p *Prop) Execute(c *sim.Case, env *sim.Env) *sim.Result {
	var sp Spec
	c.GetSpec(&sp)
	res := &sim.Result{Status: "ok"}
	t := zzsimrt.NewTask(0, 0)
	zzsimrt.Enter(t)
	defer zzsimrt.Leave()

	var data []byte
	ext := ".pdf"
	if sp.Other != "" {
		ext = "." + sp.Other
	}
	if img, ok := c.Images["file"]; ok {
		data = img
	} else if sp.Other != "" {
		data = otherDoc(sp.Other, sp.OtherSeed)
	} else {
		data = pdfw.Generate(sp.Doc).Built.Bytes
	}
	pristine := env.Disk.PutNamed("c10-pristine"+ext, data)
	path := filepath.Join(env.Disk.Dir, "c10-subject"+ext)
	faulted := sp.Fault.Kind != "" && sp.Fault.Kind != "none" && sp.Fault.Kind != "page-unloadable"
	damagedPage := 0 // 1-based number of the page that cannot be loaded
	switch sp.Fault.Kind {
	case "", "none":
		env.Disk.PutNamed("c10-subject"+ext, data)
	case "page-unloadable":
		subject := data
		if img, ok := c.Images["subject"]; ok {
			subject = img
			damagedPage = sp.Fault.Page
		} else if sp.Other == "" {
			subject, damagedPage = unloadablePage(sp.Doc, sp.Fault.At)
		}
		env.Disk.PutNamed("c10-subject"+ext, subject)
	case "truncate":
		env.Disk.PutNamed("c10-subject"+ext, data[:sp.Fault.At%(len(data)+1)])
	case "zero-sector":
		d := append([]byte{}, data...)
		s := (sp.Fault.At % (len(d)/512 + 1)) * 512
		for i := s; i < s+512 && i < len(d); i++ {
			d[i] = 0
		}
		env.Disk.PutNamed("c10-subject"+ext, d)
	case "bitflip":
		d := append([]byte{}, data...)
		if len(d) > 0 {
			d[sp.Fault.At%len(d)] ^= 1 << uint(sp.Fault.At%8)
		}
		env.Disk.PutNamed("c10-subject"+ext, d)
	case "directory":
		os.Mkdir(path, 0o755)
	case "dangling-symlink":
		os.Symlink(filepath.Join(env.Disk.Dir, "does-not-exist"), path)
	case "empty":
		env.Disk.PutNamed("c10-subject"+ext, nil)
	case "devnull":
		os.Symlink("/dev/null", path)
	}
	res.Count("fault."+sp.Fault.Kind, 1)

	isPDF := sp.Other == ""
	// the HTML reader reads the whole file when it opens and keeps no descriptor
	keepsFileOpen := sp.Other != "html"
	budget := int64(100_000_000)
	if faulted {
		budget = 3_000_000 // damaged files may hang (property C02's subject); do not spend the batch on it
	}
	rn := &runner{t: t, path: pristine, count: sp.Doc.Pages, refs: map[string]string{}, refErr: map[string]bool{}}
	if !isPDF {
		rn.count = -1 // the page count of other formats is not modelled (sheets, slides, chapters)
	}

	var handles []*tabula.Extractor
	var models []*handleModel
	var readers []*reader.Reader // readers the harness itself opened for fromreader handles
	var failClass, failDetail string
	fail := func(class, detail string) {
		if failClass == "" {
			failClass, failDetail = class, detail
		}
	}
	feats := map[string]bool{}
	ledgerCheck := func(where string) {
		fds := env.Disk.OpenFDs()
		n := 0
		for _, f := range fds {
			if f == filepath.Base(path) {
				n++
			}
		}
		want := len(readers)
		slack := 0
		for _, m := range models {
			if m.holdsFD {
				want++
			} else if m.mayHold {
				slack++
			}
		}
		res.Count("ledger_checks", 1)
		if n < want || n > want+slack {
			fail("fd-ledger", fmt.Sprintf("%s: %d descriptors are open on the document, the model says %d (handles that did a non-terminal operation and were not closed, plus caller-owned readers; %d more allowed for handles whose non-terminal operation failed)", where, n, want, slack))
		}
	}

	abandoned := false
	for ci, cl := range sp.Prog {
		if failClass != "" || abandoned {
			break
		}
		where := fmt.Sprintf("call %d %s", ci, callString(cl))
		res.Count("call."+cl.Op, 1)
		switch cl.Op {
		case "open":
			handles = append(handles, tabula.Open(path))
			models = append(models, &handleModel{root: true, opts: map[string]bool{}})
		case "fromreader":
			var rd *reader.Reader
			oc := sim.Guard(t, budget, func() error { var err error; rd, err = reader.Open(path); return err })
			if oc.Bad() {
				if faulted {
					res.Count("c02_outcome_not_judged", 1)
					abandoned = true
					break
				}
				fail("fromreader:"+oc.Kind, where+": "+oc.Class()+" "+oc.Msg)
				break
			}
			if oc.Kind != "ok" {
				// cannot be opened (faulted file): fall back to a plain Open handle
				handles = append(handles, tabula.Open(path))
				models = append(models, &handleModel{root: true, opts: map[string]bool{}})
				break
			}
			readers = append(readers, rd)
			handles = append(handles, tabula.FromReader(rd))
			models = append(models, &handleModel{root: true, opts: map[string]bool{}, fromReader: true})
			feats["fromreader"] = true
		case "derive":
			if cl.H >= len(handles) {
				break
			}
			base, bm := handles[cl.H], models[cl.H]
			nm := &handleModel{pages: append([]int{}, bm.pages...), selCalls: bm.selCalls, opts: map[string]bool{}, fromReader: bm.fromReader}
			for k, v := range bm.opts {
				nm.opts[k] = v
			}
			var ne *tabula.Extractor
			oc := sim.Guard(t, 100_000_000, func() error {
				switch cl.Kind {
				case "pages":
					ne = base.Pages(cl.Pages...)
					nm.pages = append(nm.pages, cl.Pages...)
					nm.selCalls++
				case "range":
					ne = base.PageRange(cl.A, cl.B)
					for i := cl.A; i <= cl.B; i++ {
						nm.pages = append(nm.pages, i)
					}
					nm.selCalls++
				case "exh":
					ne = base.ExcludeHeaders()
					nm.opts["exh"] = true
				case "exf":
					ne = base.ExcludeFooters()
					nm.opts["exf"] = true
				case "exhf":
					ne = base.ExcludeHeadersAndFooters()
					nm.opts["exh"], nm.opts["exf"] = true, true
				case "join":
					ne = base.JoinParagraphs()
					nm.opts["join"] = true
				case "bycol":
					ne = base.ByColumn()
					nm.opts["bycol"] = true
				case "preserve":
					ne = base.PreserveLayout()
					nm.opts["preserve"] = true
				}
				return nil
			})
			if oc.Bad() {
				fail("derive:"+oc.Kind, where+": "+oc.Class()+" "+oc.Msg)
				break
			}
			handles = append(handles, ne)
			models = append(models, nm)
			if bm.holdsFD {
				feats["derive-from-open-handle"] = true
			}
		case "count", "multicol", "charlevel":
			if cl.H >= len(handles) {
				break
			}
			h, m := handles[cl.H], models[cl.H]
			var n int
			oc := sim.Guard(t, budget, func() error {
				var err error
				switch cl.Op {
				case "count":
					n, err = h.PageCount()
				case "multicol":
					_, err = h.IsMultiColumn()
				default:
					_, err = h.IsCharacterLevel()
				}
				return err
			})
			if oc.Bad() {
				if (!isPDF && cl.Op != "count") || faulted {
					// PDF-only calls on other formats, and damaged input, must give errors, not
					// panics or hangs: that is property C02's statement. Not judged here; the
					// handle's state is undefined afterwards, so the program stops.
					res.Count("c02_outcome_not_judged", 1)
					abandoned = true
					break
				}
				fail(cl.Op+":"+oc.Kind, where+": "+oc.Class()+" "+oc.Msg)
				break
			}
			if oc.Kind == "ok" {
				if !m.fromReader && keepsFileOpen {
					m.holdsFD = true // non-terminal operations keep the reader open
				}
				if cl.Op == "count" && !faulted && rn.count >= 0 && n != rn.count {
					fail("count:wrong", fmt.Sprintf("%s: PageCount %d, the document has %d pages", where, n, rn.count))
				}
			} else if !faulted && (isPDF || cl.Op == "count") && (damagedPage == 0 || cl.Op == "count") {
				fail(cl.Op+":error", fmt.Sprintf("%s: failed on an undamaged document: %s", where, oc.Msg))
			} else if oc.Kind == "error" && !m.fromReader && !m.holdsFD {
				// a failed open leaves nothing open; a failure after opening leaves the reader open until Close
				m.mayHold = true
			}
			ledgerCheck(where)
		case "close":
			if cl.H >= len(handles) {
				break
			}
			h, m := handles[cl.H], models[cl.H]
			oc := sim.Guard(t, 100_000_000, func() error { h.Close(); return nil })
			if oc.Bad() {
				fail("close:"+oc.Kind, where+": "+oc.Class()+" "+oc.Msg)
				break
			}
			m.holdsFD, m.mayHold = false, false
			ledgerCheck(where)
		default: // terminal operations
			if cl.H >= len(handles) {
				break
			}
			h, m := handles[cl.H], models[cl.H]
			var got string
			var nums []int
			oc := sim.Guard(t, budget, func() error {
				var err error
				got, nums, err = terminal(h, cl.Op)
				return err
			})
			if oc.Bad() {
				if !isPDF || faulted {
					res.Count("c02_outcome_not_judged", 1)
					abandoned = true
					break // C02's statement
				}
				fail(cl.Op+":"+oc.Kind, where+": "+oc.Class()+" "+oc.Msg)
				break
			}
			if !m.fromReader {
				m.holdsFD, m.mayHold = false, false // terminal operations release the handle, successful or not
			}
			ledgerCheck(where)
			if failClass != "" || faulted || !isPDF {
				break
			}
			// a FromReader handle whose reader is caller-owned keeps working; an Open handle reopens
			sel, oor := resolveSel(m.pages, rn.count)
			if oor {
				if oc.Kind == "ok" {
					fail(cl.Op+":no-error", fmt.Sprintf("%s: the selection %v contains a page outside 1..%d but the operation succeeded", where, m.pages, rn.count))
				}
				break
			}
			if m.selCalls > 0 && len(m.pages) == 0 {
				break // only empty selections were given (Pages() / reversed range): the statement does not say what that means
			}
			if len(m.pages) == 0 {
				for i := 1; i <= rn.count; i++ {
					sel = append(sel, i)
				}
			}
			if damagedPage > 0 {
				hit := false
				for _, pg := range sel {
					hit = hit || pg == damagedPage
				}
				if hit {
					// the selection includes the page that cannot be loaded: an error is the expected
					// answer; a success must at least not carry text of pages outside the selection
					res.Count("damaged_page_selected", 1)
					if oc.Kind == "ok" && cl.Op == "text" {
						if bad := foreignMarkers(got, sel, rn); bad != "" {
							fail("text:foreign-page", fmt.Sprintf("%s: page %d cannot be loaded; Text() of selection %v succeeded and carries %s, which is on none of the selected pages", where, damagedPage, sel, bad))
						}
					}
					break
				}
				feats["damaged-page-elsewhere"] = true
			}
			if oc.Kind != "ok" {
				fail(cl.Op+":error", fmt.Sprintf("%s: failed on an undamaged document with the valid selection %v: %s", where, m.pages, oc.Msg))
				break
			}
			feats["selection"] = feats["selection"] || len(m.pages) > 0
			if damagedPage > 0 && (m.opts["exh"] || m.opts["exf"]) {
				// header / footer detection looks at all pages, and one of them is missing here:
				// what is recognised as a header may legitimately differ from the intact file.
				// What cannot differ is which pages the text comes from.
				if cl.Op == "text" {
					if bad := foreignMarkers(got, sel, rn); bad != "" {
						fail("text:foreign-page", fmt.Sprintf("%s: Text() of selection %v (options %q, page %d cannot be loaded) carries %s, which is on none of the selected pages", where, sel, optKey(m.opts), damagedPage, bad))
					}
				}
				break
			}
			switch cl.Op {
			case "text":
				var parts []string
				bad := false
				for _, pg := range sel {
					s, failed := rn.ref(pg, "text", m.opts)
					bad = bad || failed
					if s != "" {
						parts = append(parts, s)
					}
				}
				want := strings.Join(parts, "\n\n")
				if !bad && got != want {
					a, b := sim.DiffContext(want, got)
					fail("text:composition", fmt.Sprintf("%s: Text() of selection %v (options %q) is not the per-page texts of pages %v joined by a blank line\n  composed: %s\n  got:      %s", where, m.pages, optKey(m.opts), sel, a, b))
				}
			case "frags", "lines":
				// per-page results are lists; the composition is their concatenation
				var b strings.Builder
				b.WriteString("[")
				first := true
				bad := false
				for _, pg := range sel {
					s, failed := rn.ref(pg, cl.Op, m.opts)
					bad = bad || failed
					s = strings.TrimSuffix(strings.TrimPrefix(s, "["), "]")
					if s == "" || s == "nil" {
						continue
					}
					if !first {
						b.WriteString(" ")
					}
					b.WriteString(s)
					first = false
				}
				b.WriteString("]")
				want := b.String()
				if want == "[]" && (got == "nil" || got == "[]") {
					break
				}
				if !bad && got != want {
					a, bb := sim.DiffContext(want, got)
					fail(cl.Op+":composition", fmt.Sprintf("%s: result for selection %v is not the concatenation of the per-page results of pages %v\n  composed: %s\n  got:      %s", where, m.pages, sel, a, bb))
				}
			case "doc":
				var tocPages []int
				for i, n := range nums {
					if n == -1 {
						nums, tocPages = nums[:i], nums[i+1:]
						break
					}
				}
				for _, tp := range tocPages {
					ok := false
					for _, pg := range sel {
						ok = ok || pg == tp
					}
					if !ok {
						fail("doc:toc-page", fmt.Sprintf("%s: a table-of-contents entry points to page %d, the selected source pages are %v", where, tp, sel))
						break
					}
				}
				if fmt.Sprint(nums) != fmt.Sprint(sel) {
					fail("doc:page-numbers", fmt.Sprintf("%s: the document model numbers its pages %v, the source pages are %v", where, nums, sel))
					break
				}
				var b strings.Builder
				bad := false
				for _, pg := range sel {
					s, failed := rn.ref(pg, "doc", m.opts)
					bad = bad || failed
					b.WriteString(s)
				}
				if !bad && got != b.String() {
					a, bb := sim.DiffContext(b.String(), got)
					fail("doc:composition", fmt.Sprintf("%s: page elements for selection %v differ from the per-page documents of pages %v\n  composed: %s\n  got:      %s", where, m.pages, sel, a, bb))
				}
			case "chunks":
				inSel := map[int]bool{}
				for _, pg := range sel {
					inSel[pg] = true
				}
				for i := 0; i+1 < len(nums); i += 2 {
					if !inSel[nums[i]] || !inSel[nums[i+1]] || nums[i] > nums[i+1] {
						fail("chunks:page-metadata", fmt.Sprintf("%s: chunk %d reports pages %d-%d, the selected source pages are %v", where, i/2, nums[i], nums[i+1], sel))
						break
					}
				}
			}
		}
	}
	// everything is closed at the end: handles, then caller-owned readers; closing twice is harmless
	if failClass == "" && !abandoned {
		for i, h := range handles {
			oc := sim.Guard(t, 100_000_000, func() error { h.Close(); h.Close(); return nil })
			if oc.Bad() {
				fail("close:"+oc.Kind, fmt.Sprintf("final double Close of handle %d: %s %s", i, oc.Class(), oc.Msg))
			}
			models[i].holdsFD, models[i].mayHold = false, false
		}
		for _, rd := range readers {
			rd.Close()
		}
		readers = nil
		if failClass == "" {
			ledgerCheck("after closing every handle twice")
		}
	} else {
		for _, h := range handles {
			sim.Guard(t, 100_000_000, func() error { h.Close(); return nil })
		}
		for _, rd := range readers {
			rd.Close()
		}
	}
	os.Remove(path)

	var fl []string
	for k := range feats {
		fl = append(fl, k)
	}
	if faulted {
		fl = append(fl, "fault="+sp.Fault.Kind)
	}
	if !isPDF {
		fl = append(fl, "format="+sp.Other)
	}
	sort.Strings(fl)
	res.Steps = t.Total
	res.Features = fl
	res.Fingerprint = progShape(&sp)
	res.Nontrivial = len(sp.Prog) > 2
	res.Sample = map[string]interface{}{"pages": sp.Doc.Pages, "program": progStrings(sp.Prog, 14), "fault": sp.Fault, "format": sp.Other}
	if env.LogEvents {
		res.Log = append(res.Log, fmt.Sprintf("calls=%d steps=%d", len(sp.Prog), t.Total))
	}
	if failClass != "" {
		res.Status = "violation"
		res.Class = failClass
		res.Detail = failDetail + "\n  program: " + strings.Join(progStrings(sp.Prog, 40), "; ")
	}
	return res
}

func callString(c Call) string {
	switch c.Op {
	case "derive":
		switch c.Kind {
		case "pages":
			return fmt.Sprintf("h%d.Pages(%v)", c.H, c.Pages)
		case "range":
			return fmt.Sprintf("h%d.PageRange(%d,%d)", c.H, c.A, c.B)
		}
		return fmt.Sprintf("h%d.%s()", c.H, c.Kind)
	case "open":
		return "Open"
	case "fromreader":
		return "FromReader"
	}
	return fmt.Sprintf("h%d.%s()", c.H, c.Op)
}

func progStrings(p []Call, n int) []string {
	var out []string
	nh := 0
	for i, c := range p {
		if i >= n {
			out = append(out, "...")
			break
		}
		s := callString(c)
		if c.Op == "open" || c.Op == "fromreader" || c.Op == "derive" {
			s = fmt.Sprintf("h%d := %s", nh, s)
			nh++
		}
		out = append(out, s)
	}
	return out
}

func progShape(sp *Spec) string {
	var b strings.Builder
	for _, c := range sp.Prog {
		b.WriteString(c.Op[:2])
		b.WriteString(strconv.Itoa(c.H))
		b.WriteString(c.Kind)
		b.WriteString(fmt.Sprint(c.Pages))
	}
	return b.String() + sp.Fault.Kind + sp.Other
}

func (p *Prop) Shrink(c *sim.Case) []*sim.Case {
	var sp Spec
	c.GetSpec(&sp)
	var out []*sim.Case
	emit := func(s Spec) {
		n := *c
		n.Images = nil
		n.SetSpec(s)
		out = append(out, &n)
	}
	// dropping a call that creates a handle shifts the handle indices of later calls
	drop := func(i int) (Spec, bool) {
		s := sp
		s.Prog = nil
		creates := sp.Prog[i].Op == "open" || sp.Prog[i].Op == "fromreader" || sp.Prog[i].Op == "derive"
		hidx := 0
		for j := 0; j < i; j++ {
			if sp.Prog[j].Op == "open" || sp.Prog[j].Op == "fromreader" || sp.Prog[j].Op == "derive" {
				hidx++
			}
		}
		for j, cl := range sp.Prog {
			if j == i {
				continue
			}
			if creates && j > i {
				if cl.Op != "open" && cl.Op != "fromreader" && cl.H == hidx {
					return s, false // a later call uses the dropped handle
				}
				if cl.H > hidx && cl.Op != "open" && cl.Op != "fromreader" {
					cl.H--
				}
			}
			s.Prog = append(s.Prog, cl)
		}
		// re-index the H of creators (their H is the new handle's index, informational)
		return s, true
	}
	for i := len(sp.Prog) - 1; i >= 0; i-- {
		if s, ok := drop(i); ok {
			emit(s)
		}
	}
	if sp.Fault.Kind != "" && sp.Fault.Kind != "none" {
		s := sp
		s.Fault = Fault{}
		emit(s)
	}
	for i, cl := range sp.Prog {
		if cl.Op == "derive" && cl.Kind == "pages" && len(cl.Pages) > 1 {
			for j := range cl.Pages {
				s := sp
				s.Prog = append([]Call{}, sp.Prog...)
				np := append([]int{}, cl.Pages[:j]...)
				np = append(np, cl.Pages[j+1:]...)
				s.Prog[i].Pages = np
				emit(s)
			}
		}
		if cl.Op == "fromreader" {
			s := sp
			s.Prog = append([]Call{}, sp.Prog...)
			s.Prog[i].Op = "open"
			emit(s)
		}
	}
	if sp.Doc.Pages > 2 {
		s := sp
		s.Doc.Pages--
		emit(s)
	}
	if sp.Doc.Lines > 1 {
		s := sp
		s.Doc.Lines = 1
		emit(s)
	}
	for _, d := range sp.Doc.Shrinks() {
		if d.Pages != sp.Doc.Pages {
			continue
		}
		s := sp
		s.Doc = d
		emit(s)
	}
	return out
}

func otherDoc(kind string, seed uint64) []byte {
	r := sim.NewRand(seed)
	switch kind {
	case "docx":
		return officew.DOCX(r).Bytes()
	case "odt":
		return officew.ODT(r).Bytes()
	case "xlsx":
		return officew.XLSX(r).Bytes()
	case "pptx":
		return officew.PPTX(r).Bytes()
	case "epub":
		return officew.EPUB(r).Bytes()
	}
	return []byte(docpool.SmallHTML(r))
}

func (p *Prop) Finalise(c *sim.Case, env *sim.Env) {
	var sp Spec
	c.GetSpec(&sp)
	if c.Images == nil {
		c.Images = map[string][]byte{}
	}
	if sp.Fault.Kind == "page-unloadable" && sp.Other == "" {
		c.Images["subject"], sp.Fault.Page = unloadablePage(sp.Doc, sp.Fault.At)
		c.SetSpec(sp)
	}
	if sp.Other != "" {
		c.Images["file"] = otherDoc(sp.Other, sp.OtherSeed)
	} else {
		c.Images["file"] = pdfw.Generate(sp.Doc).Built.Bytes
	}
}

func (p *Prop) Probes(env *sim.Env) []*sim.Case { return nil }
