// Command worker executes simulated runs. It speaks JSON lines on stdin/stdout
// with the runner (cmd/verif) and is built inside the instrumented scratch copy
// of the tabula module.
package main

import (
	"bufio"
	"encoding/json"
	"fmt"
	"io"
	"os"
	"runtime/debug"

	"github.com/tsawler/tabula/zzharness/props/c03"
	"github.com/tsawler/tabula/zzharness/sim"
	"github.com/tsawler/tabula/zzsimrt"
)

type request struct {
	Op    string      `json:"op"` // run | exec | shrink | final | probes | reach
	Prop  string      `json:"prop"`
	Base  uint64      `json:"base"`
	From  int         `json:"from"`
	To    int         `json:"to"`
	Tier  string      `json:"tier"`
	Known []sim.Known `json:"known"`
	Case  *sim.Case   `json:"case"`
	Log   bool        `json:"log"`
}

type event struct {
	Ev     string      `json:"ev"`
	Index  int         `json:"index"`
	Result *sim.Result `json:"result,omitempty"`
	Case   *sim.Case   `json:"case,omitempty"`
	Cases  []*sim.Case `json:"cases,omitempty"`
	Hits   map[string]uint32 `json:"hits,omitempty"`
	Err    string      `json:"err,omitempty"`
}

var props = map[string]sim.Prop{}

func register(p sim.Prop) { props[p.ID()] = p }

func main() {
	if len(os.Args) > 1 && os.Args[1] == "-solo" {
		zzsimrt.Configure(len(zzsimrt.SiteTab))
		in, _ := io.ReadAll(os.Stdin)
		os.Stdout.WriteString(c03.Solo(in))
		return
	}
	if len(os.Args) > 1 && os.Args[1] == "-devmodels" {
		devModels()
		return
	}
	if len(os.Args) > 2 && os.Args[1] == "-dev" {
		zzsimrt.Configure(len(zzsimrt.SiteTab))
		devMain(os.Args[2:])
		return
	}
	zzsimrt.Configure(len(zzsimrt.SiteTab))
	debug.SetMaxStack(256 << 20)
	debug.SetGCPercent(200)
	registerAll()
	disk, err := sim.NewDisk()
	if err != nil {
		fmt.Fprintln(os.Stderr, "worker:", err)
		os.Exit(2)
	}
	defer disk.Close()
	self, _ := os.Executable()
	out := bufio.NewWriterSize(os.Stdout, 1<<20)
	emit := func(e event) {
		b, err := json.Marshal(e)
		if err != nil {
			b, _ = json.Marshal(event{Ev: "error", Err: err.Error()})
		}
		out.Write(b)
		out.WriteByte('\n')
		out.Flush()
	}
	sc := bufio.NewScanner(os.Stdin)
	sc.Buffer(make([]byte, 1<<20), 256<<20)
	for sc.Scan() {
		var req request
		if err := json.Unmarshal(sc.Bytes(), &req); err != nil {
			emit(event{Ev: "error", Err: "bad request: " + err.Error()})
			continue
		}
		env := &sim.Env{Disk: disk, Tier: req.Tier, Known: req.Known, WorkerBin: self, LogEvents: req.Log}
		env.Tick = func() { emit(event{Ev: "tick"}) }
		prop := req.Prop
		if req.Case != nil {
			prop = req.Case.Prop
		}
		p, ok := props[prop]
		if !ok && req.Op != "reach" {
			emit(event{Ev: "error", Err: "unknown property " + prop})
			continue
		}
		switch req.Op {
		case "run":
			for i := req.From; i < req.To; i++ {
				emit(event{Ev: "start", Index: i})
				c := p.Generate(req.Base, i, env)
				r := p.Execute(c, env)
				e := event{Ev: "result", Index: i, Result: r}
				if r.Status != "ok" {
					e.Case = c
				}
				emit(e)
				disk.Reset()
			}
			emit(event{Ev: "done"})
		case "exec":
			emit(event{Ev: "start", Index: req.Case.Index})
			r := p.Execute(req.Case, env)
			emit(event{Ev: "result", Index: req.Case.Index, Result: r})
			disk.Reset()
		case "shrink":
			emit(event{Ev: "cands", Cases: p.Shrink(req.Case)})
		case "final":
			p.Finalise(req.Case, env)
			emit(event{Ev: "case", Case: req.Case})
		case "probes":
			emit(event{Ev: "cands", Cases: p.Probes(env)})
		case "reach":
			h := map[string]uint32{}
			for i, n := range zzsimrt.Hits {
				if n > 0 && i < len(zzsimrt.SiteTab) {
					e := zzsimrt.SiteTab[i]
					if e.Kind == "func" {
						h[sim.NormFunc(e.Pkg+"."+e.Func)] += n
					}
				}
			}
			emit(event{Ev: "reach", Hits: h})
		default:
			emit(event{Ev: "error", Err: "unknown op " + req.Op})
		}
	}
}
