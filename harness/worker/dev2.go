package main

import (
	"fmt"

	"github.com/tsawler/tabula/zzharness/pdfw"
	"github.com/tsawler/tabula/zzharness/sim"
)

// devModels: how often, and why, does the plain-storage variant of a random
// spec describe a different logical document? (development aid)
func devModels() {
	r := sim.NewRand(99)
	reasons := map[string]int{}
	for i := 0; i < 300; i++ {
		sp := pdfw.RandomSpec(r)
		a := pdfw.Generate(sp)
		b := pdfw.Generate(sp.PlainStorage())
		why := "same"
		for rev := range a.Models {
			if rev >= len(b.Models) {
				why = "revcount"
				break
			}
			ma, mb := a.Models[rev], b.Models[rev]
			if len(ma.Pages) != len(mb.Pages) {
				why = fmt.Sprintf("pagecount rev%d ops%v", rev, sp.RevOps)
				break
			}
			for p := range ma.Pages {
				if ma.Pages[p].MediaBox != mb.Pages[p].MediaBox {
					why = "box"
				} else if ma.Pages[p].Rotate != mb.Pages[p].Rotate {
					why = "rotate"
				} else if len(ma.Pages[p].Lines) != len(mb.Pages[p].Lines) {
					why = fmt.Sprintf("linecount rev%d", rev)
				} else {
					for l := range ma.Pages[p].Lines {
						if ma.Pages[p].Lines[l] != mb.Pages[p].Lines[l] {
							why = fmt.Sprintf("line rev%d", rev)
						}
					}
				}
			}
			if why != "same" {
				break
			}
		}
		reasons[why]++
	}
	fmt.Println(reasons)
}
