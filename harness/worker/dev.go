package main

import (
	"fmt"
	"os"
	"strconv"

	"github.com/tsawler/tabula/zzharness/docpool"
	"github.com/tsawler/tabula/zzsimrt"
)

// devMain: worker -dev <poolseed>  prints, for every pool document, the first
// line of the result of file.text (development aid: are the generators accepted?).
func devMain(args []string) {
	seed, _ := strconv.ParseUint(args[0], 10, 64)
	pool := docpool.New(seed)
	dir, _ := os.MkdirTemp("", "dev")
	defer os.RemoveAll(dir)
	t := zzsimrt.NewTask(0, 0)
	zzsimrt.Enter(t)
	for i := 0; i < pool.Size(); i++ {
		d := pool.Doc(i)
		path := fmt.Sprintf("%s/d%d%s", dir, i, d.Ext)
		os.WriteFile(path, d.Data, 0o644)
		op := pool.OpsFor(i)[0]
		out := docpool.RunOp(t, op, path, d.Data, 0)
		if len(out) > 150 {
			out = out[:150]
		}
		fmt.Printf("%2d %-8s %6d bytes %s -> %q\n", i, d.Kind, len(d.Data), op, out)
	}
}
