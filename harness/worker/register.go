package main

import (
	"github.com/tsawler/tabula/zzharness/props/c03"
)

func registerAll() {
	register(c03.New())
}
