package main

import (
	"github.com/tsawler/tabula/zzharness/props/c01"
	"github.com/tsawler/tabula/zzharness/props/c02"
	"github.com/tsawler/tabula/zzharness/props/c03"
	"github.com/tsawler/tabula/zzharness/props/c04"
	"github.com/tsawler/tabula/zzharness/props/c10"
	"github.com/tsawler/tabula/zzharness/props/c14"
	"github.com/tsawler/tabula/zzharness/props/c19"
)

func registerAll() {
	register(c01.New())
	register(c02.New())
	register(c03.New())
	register(c04.New())
	register(c10.New())
	register(c14.New())
	register(c19.New())
}
