// Command instrument rewrites a scratch copy of the tabula module in place so
// that the simulator (package zzsimrt, copied into the same module) sees every
// function entry and loop iteration (P-points), every access to a package-level
// variable (S-points), decides the iteration order of every map range
// (map-order seam) and sees the size of every non-constant slice allocation
// (allocation guard).
//
// The rewriter is generic: it keys on language constructs, never on lines or
// names, so it keeps working on changed trees. It is purely textual on top of a
// type-checked AST: each edit is an insertion or a replacement at byte offsets
// of the original file, no file is re-printed, and line numbers are preserved.
//
// usage: instrument -dir <module root> -out <sites.json>
package main

import (
	"encoding/json"
	"flag"
	"fmt"
	"go/ast"
	"go/token"
	"go/types"
	"os"
	"path/filepath"
	"sort"
	"strings"

	"golang.org/x/tools/go/packages"
)

const rtImport = "github.com/tsawler/tabula/zzsimrt"

type edit struct {
	start, end int // byte offsets in the original file; start==end is an insertion
	text       string
	prio       int // order among insertions at the same offset (lower first)
}

type siteInfo struct {
	ID   int    `json:"id"`
	Kind string `json:"kind"` // func, loop, range, maprange, svar, make
	Pkg  string `json:"pkg"`
	Func string `json:"func"`
	Pos  string `json:"pos"`
	Var  string `json:"var,omitempty"`
}

type varInfo struct {
	ID   int    `json:"id"`
	Name string `json:"name"`
}

type output struct {
	Sites       []siteInfo `json:"sites"`
	Vars        []varInfo  `json:"vars"`
	Unsupported []string   `json:"unsupported"` // sync / channel constructs found in non-test code
	Stmts       int        `json:"stmts"`       // T-points (statement boundaries)
	SyncShims   int        `json:"sync_shims"`  // Lock / Unlock / Once.Do statements bracketed by CritEnter / CritExit
	Files       int        `json:"files"`
	Funcs       int        `json:"funcs"`
	Loops       int        `json:"loops"`
	MapRanges   int        `json:"map_ranges"`
	SPoints     int        `json:"s_points"`
	Makes       int        `json:"makes"`
}

type instr struct {
	fset    *token.FileSet
	out     output
	varIDs  map[*types.Var]int
	modPath string
	sizes   types.Sizes
}

func main() {
	dir := flag.String("dir", "", "module root of the scratch copy")
	outPath := flag.String("out", "", "where to write the site table (JSON)")
	flag.Parse()
	if *dir == "" || *outPath == "" {
		fmt.Fprintln(os.Stderr, "usage: instrument -dir <module root> -out <sites.json>")
		os.Exit(2)
	}
	if err := run(*dir, *outPath); err != nil {
		fmt.Fprintln(os.Stderr, "instrument:", err)
		os.Exit(2)
	}
}

func run(dir, outPath string) error {
	fset := token.NewFileSet()
	cfg := &packages.Config{
		Mode: packages.NeedName | packages.NeedFiles | packages.NeedCompiledGoFiles | packages.NeedSyntax |
			packages.NeedTypes | packages.NeedTypesInfo | packages.NeedImports | packages.NeedDeps | packages.NeedModule,
		Dir:   dir,
		Fset:  fset,
		Tests: false,
		Env:   append(os.Environ(), "GOFLAGS=-mod=mod", "GOPROXY=off", "GOSUMDB=off", "GOTOOLCHAIN=local"),
	}
	pkgs, err := packages.Load(cfg, "./...")
	if err != nil {
		return err
	}
	in := &instr{fset: fset, varIDs: map[*types.Var]int{}, sizes: types.SizesFor("gc", "amd64")}
	// deterministic order
	sort.Slice(pkgs, func(i, j int) bool { return pkgs[i].PkgPath < pkgs[j].PkgPath })
	for _, p := range pkgs {
		if len(p.Errors) > 0 {
			return fmt.Errorf("package %s does not type-check: %v", p.PkgPath, p.Errors[0])
		}
		if p.Module != nil && in.modPath == "" {
			in.modPath = p.Module.Path
		}
	}
	if in.modPath == "" {
		return fmt.Errorf("no module found in %s", dir)
	}
	// Assign ids to all package-level variables of the module first (stable order).
	for _, p := range pkgs {
		if skipPkg(p.PkgPath) {
			continue
		}
		scope := p.Types.Scope()
		names := scope.Names()
		sort.Strings(names)
		for _, n := range names {
			if v, ok := scope.Lookup(n).(*types.Var); ok {
				id := len(in.out.Vars) + 1
				in.varIDs[v] = id
				in.out.Vars = append(in.out.Vars, varInfo{ID: id, Name: p.PkgPath + "." + n})
			}
		}
	}
	for _, p := range pkgs {
		if skipPkg(p.PkgPath) {
			continue
		}
		for i, f := range p.Syntax {
			name := p.CompiledGoFiles[i]
			if strings.HasSuffix(name, "_test.go") {
				continue
			}
			if err := in.file(p, f, name); err != nil {
				return fmt.Errorf("%s: %w", name, err)
			}
		}
	}
	b, _ := json.MarshalIndent(in.out, "", " ")
	return os.WriteFile(outPath, b, 0o644)
}

func skipPkg(path string) bool {
	return strings.Contains(path, "/zzsimrt") || strings.Contains(path, "/zzharness")
}

func (in *instr) site(kind string, p *packages.Package, fn string, pos token.Pos, v string) int {
	id := len(in.out.Sites) + 1
	position := in.fset.Position(pos)
	rel := filepath.Base(filepath.Dir(position.Filename)) + "/" + filepath.Base(position.Filename)
	in.out.Sites = append(in.out.Sites, siteInfo{ID: id, Kind: kind, Pkg: p.PkgPath, Func: fn,
		Pos: fmt.Sprintf("%s:%d", rel, position.Line), Var: v})
	return id
}

// file instruments one source file.
func (in *instr) file(p *packages.Package, f *ast.File, name string) error {
	src, err := os.ReadFile(name)
	if err != nil {
		return err
	}
	tf := in.fset.File(f.Pos())
	off := func(pos token.Pos) int { return tf.Offset(pos) }
	var edits []edit
	info := p.TypesInfo

	// pass 1: which statements live in a statement list (and so may have a
	// statement inserted in front of them), and each node's parent chain.
	inList := map[ast.Stmt]bool{}
	ast.Inspect(f, func(n ast.Node) bool {
		switch b := n.(type) {
		case *ast.BlockStmt:
			for _, s := range b.List {
				inList[s] = true
			}
		case *ast.CaseClause:
			for _, s := range b.Body {
				inList[s] = true
			}
		case *ast.CommClause:
			for _, s := range b.Body {
				inList[s] = true
			}
		}
		return true
	})

	// S-points: collected per list statement so each statement gets at most one
	// call per (variable, write) pair.
	type skey struct {
		stmt  ast.Stmt
		v     int
		write bool
	}
	sSeen := map[skey]bool{}

	var stack []ast.Node
	funcName := func() string {
		for i := len(stack) - 1; i >= 0; i-- {
			if fd, ok := stack[i].(*ast.FuncDecl); ok {
				if fd.Recv != nil && len(fd.Recv.List) > 0 {
					return recvName(fd.Recv.List[0].Type) + "." + fd.Name.Name
				}
				return fd.Name.Name
			}
		}
		return "<init>"
	}
	insideFunc := func() bool {
		for i := len(stack) - 1; i >= 0; i-- {
			switch stack[i].(type) {
			case *ast.FuncDecl, *ast.FuncLit:
				return true
			}
		}
		return false
	}
	// enclosingListStmt: innermost statement on the stack that is in a list.
	enclosingListStmt := func() ast.Stmt {
		for i := len(stack) - 1; i >= 0; i-- {
			if s, ok := stack[i].(ast.Stmt); ok && inList[s] {
				return s
			}
			if _, ok := stack[i].(*ast.FuncLit); ok {
				// do not hoist out of a function literal
				return nil
			}
		}
		return nil
	}
	// isWriteContext: is the identifier (top of stack) the base of an assignment target / incdec?
	isWrite := func(id *ast.Ident) bool {
		var cur ast.Node = id
		for i := len(stack) - 2; i >= 0; i-- {
			switch par := stack[i].(type) {
			case *ast.SelectorExpr:
				if par.X != cur {
					return false
				}
				cur = par
			case *ast.IndexExpr:
				if par.X != cur {
					return false
				}
				cur = par
			case *ast.StarExpr:
				cur = par
			case *ast.ParenExpr:
				cur = par
			case *ast.SliceExpr:
				if par.X != cur {
					return false
				}
				cur = par
			case *ast.AssignStmt:
				for _, l := range par.Lhs {
					if l == cur {
						return true
					}
				}
				return false
			case *ast.IncDecStmt:
				return par.X == cur
			case *ast.RangeStmt:
				return par.Key == cur || par.Value == cur
			case *ast.UnaryExpr:
				// &x : the address escapes; treat as write (conservative for the race rule
				// only when another task also touches x)
				return par.Op == token.AND && par.X == cur
			default:
				return false
			}
		}
		return false
	}

	usedRT := false
	handledSync := map[*ast.CallExpr]bool{}
	tmp := 0
	var firstErr error

	var visit func(n ast.Node) bool
	visit = func(n ast.Node) bool {
		if n == nil {
			stack = stack[:len(stack)-1]
			return true
		}
		stack = append(stack, n)
		if st, ok := n.(ast.Stmt); ok && inList[st] && insideFunc() {
			switch st.(type) {
			case *ast.EmptyStmt, *ast.BranchStmt, *ast.LabeledStmt, *ast.DeclStmt, *ast.CaseClause, *ast.CommClause:
			default:
				// T-point: a place where the scheduler may switch tasks between two statements
				// (not counted as a step; a no-op outside scheduled runs)
				id := in.site("stmt", p, funcName(), st.Pos(), "")
				edits = append(edits, edit{start: off(st.Pos()), end: off(st.Pos()), text: fmt.Sprintf("zzsimrt.T(%d); ", id), prio: 4})
				in.out.Stmts++
				usedRT = true
			}
		}
		switch x := n.(type) {
		case *ast.FuncDecl:
			if x.Body != nil {
				id := in.site("func", p, funcName(), x.Pos(), "")
				edits = append(edits, edit{start: off(x.Body.Lbrace) + 1, end: off(x.Body.Lbrace) + 1,
					text: fmt.Sprintf("zzsimrt.P(%d);", id), prio: 5})
				in.out.Funcs++
				usedRT = true
			}
		case *ast.FuncLit:
			id := in.site("func", p, funcName()+".func", x.Pos(), "")
			edits = append(edits, edit{start: off(x.Body.Lbrace) + 1, end: off(x.Body.Lbrace) + 1,
				text: fmt.Sprintf("zzsimrt.P(%d);", id), prio: 5})
			in.out.Funcs++
			usedRT = true
		case *ast.ForStmt:
			id := in.site("loop", p, funcName(), x.Pos(), "")
			edits = append(edits, edit{start: off(x.Body.Lbrace) + 1, end: off(x.Body.Lbrace) + 1,
				text: fmt.Sprintf("zzsimrt.P(%d);", id), prio: 5})
			in.out.Loops++
			usedRT = true
		case *ast.RangeStmt:
			t := info.TypeOf(x.X)
			isMap := false
			var mt *types.Map
			if t != nil {
				if m, ok := t.Underlying().(*types.Map); ok {
					isMap, mt = true, m
				}
			}
			if isMap && plainKey(mt.Key()) {
				listStmt := ast.Stmt(x)
				// a labeled range statement: the list element is the label
				if len(stack) >= 2 {
					if ls, ok := stack[len(stack)-2].(*ast.LabeledStmt); ok && ls.Stmt == x {
						listStmt = ls
					}
				}
				if !inList[listStmt] {
					// cannot hoist; leave untouched but still count the loop
					id := in.site("range", p, funcName(), x.Pos(), "")
					edits = append(edits, edit{start: off(x.Body.Lbrace) + 1, end: off(x.Body.Lbrace) + 1,
						text: fmt.Sprintf("zzsimrt.P(%d);", id), prio: 5})
					break
				}
				tmp++
				sid := in.site("maprange", p, funcName(), x.Pos(), "")
				mvar := fmt.Sprintf("zzm%d", tmp)
				kvar := fmt.Sprintf("zzk%d", tmp)
				okvar := fmt.Sprintf("zzok%d", tmp)
				exprText := string(src[off(x.X.Pos()):off(x.X.End())])
				// hoisted evaluation of the map expression (once, like range does)
				edits = append(edits, edit{start: off(listStmt.Pos()), end: off(listStmt.Pos()),
					text: fmt.Sprintf("%s := %s; ", mvar, exprText), prio: 1})
				keyName, valName := "", ""
				if x.Key != nil {
					keyName = string(src[off(x.Key.Pos()):off(x.Key.End())])
				}
				if x.Value != nil {
					valName = string(src[off(x.Value.Pos()):off(x.Value.End())])
				}
				var hdr strings.Builder
				define := x.Tok == token.DEFINE
				loopKey := kvar
				if define && keyName != "" && keyName != "_" {
					loopKey = keyName
				}
				fmt.Fprintf(&hdr, "for _, %s := range zzsimrt.Keys(%d, %s) {", loopKey, sid, mvar)
				if !define && keyName != "" && keyName != "_" {
					fmt.Fprintf(&hdr, " %s = %s;", keyName, loopKey)
				}
				switch {
				case valName == "" || valName == "_":
					fmt.Fprintf(&hdr, " if _, %s := %s[%s]; !%s { continue };", okvar, mvar, loopKey, okvar)
				case define:
					fmt.Fprintf(&hdr, " %s, %s := %s[%s]; if !%s { continue };", valName, okvar, mvar, loopKey, okvar)
				default:
					fmt.Fprintf(&hdr, " var %s bool; %s, %s = %s[%s]; if !%s { continue };", okvar, valName, okvar, mvar, loopKey, okvar)
				}
				fmt.Fprintf(&hdr, " zzsimrt.P(%d);", sid)
				// keep the line count: header may have spanned several lines
				nl := strings.Count(string(src[off(x.Pos()):off(x.Body.Lbrace)+1]), "\n")
				hdr.WriteString(strings.Repeat("\n", nl))
				edits = append(edits, edit{start: off(x.Pos()), end: off(x.Body.Lbrace) + 1, text: hdr.String()})
				in.out.MapRanges++
				usedRT = true
				// Walk the body (and the map expression for S-points) manually, then skip
				// the default descent so that Key/Value idents are not treated as accesses
				// inside a replaced region.
				in.walkChildren(x.X, visit)
				in.walkChildren(x.Body, visit)
				stack = stack[:len(stack)-1]
				return false
			}
			id := in.site("range", p, funcName(), x.Pos(), "")
			edits = append(edits, edit{start: off(x.Body.Lbrace) + 1, end: off(x.Body.Lbrace) + 1,
				text: fmt.Sprintf("zzsimrt.P(%d);", id), prio: 5})
			in.out.Loops++
			usedRT = true
		case *ast.CallExpr:
			if id, ok := x.Fun.(*ast.Ident); ok && id.Name == "make" {
				if _, isBuiltin := info.Uses[id].(*types.Builtin); isBuiltin && len(x.Args) >= 2 {
					if t := info.TypeOf(x.Args[0]); t != nil {
						if sl, ok := t.Underlying().(*types.Slice); ok {
							elem := in.sizes.Sizeof(sl.Elem())
							if elem < 1 {
								elem = 1
							}
							for _, a := range x.Args[1:] {
								tv := info.Types[a]
								if tv.Value != nil {
									continue // constant size
								}
								sid := in.site("make", p, funcName(), a.Pos(), "")
								edits = append(edits, edit{start: off(a.Pos()), end: off(a.Pos()),
									text: fmt.Sprintf("zzsimrt.A(%d, ", sid), prio: 5})
								edits = append(edits, edit{start: off(a.End()), end: off(a.End()),
									text: fmt.Sprintf(", %d)", elem), prio: 0})
								in.out.Makes++
								usedRT = true
							}
						}
					}
				}
			}
			if !handledSync[x] {
				in.noteUnsupportedCall(x, info)
			}
		case *ast.ExprStmt:
			// Mutual exclusion is modelled, not executed blindly: a task is never parked while
			// it holds a lock (or runs inside sync.Once.Do), so a real Lock never blocks the
			// thread that holds the baton, and accesses made under a lock are marked as such
			// for the race rule.
			if call, ok := x.X.(*ast.CallExpr); ok && inList[x] {
				switch syncKind(call, info) {
				case "lock":
					edits = append(edits, edit{start: off(x.Pos()), end: off(x.Pos()), text: "zzsimrt.CritEnter(); ", prio: 3})
					handledSync[call] = true
				case "unlock":
					edits = append(edits, edit{start: off(x.End()), end: off(x.End()), text: "; zzsimrt.CritExit()", prio: 1})
					handledSync[call] = true
				case "once":
					edits = append(edits, edit{start: off(x.Pos()), end: off(x.Pos()), text: "zzsimrt.CritEnter(); ", prio: 3})
					edits = append(edits, edit{start: off(x.End()), end: off(x.End()), text: "; zzsimrt.CritExit()", prio: 1})
					handledSync[call] = true
				}
				if handledSync[call] {
					in.out.SyncShims++
					usedRT = true
				}
			}
		case *ast.DeferStmt:
			if inList[x] && syncKind(x.Call, info) == "unlock" {
				// deferred calls run last-in first-out: the Unlock first, then this
				edits = append(edits, edit{start: off(x.Pos()), end: off(x.Pos()), text: "defer zzsimrt.CritExit(); ", prio: 3})
				handledSync[x.Call] = true
				in.out.SyncShims++
				usedRT = true
			}
		case *ast.GoStmt:
			in.out.Unsupported = append(in.out.Unsupported, "go statement at "+in.fset.Position(x.Pos()).String())
		case *ast.SendStmt:
			in.out.Unsupported = append(in.out.Unsupported, "channel send at "+in.fset.Position(x.Pos()).String())
		case *ast.SelectStmt:
			in.out.Unsupported = append(in.out.Unsupported, "select at "+in.fset.Position(x.Pos()).String())
		case *ast.UnaryExpr:
			if x.Op == token.ARROW {
				in.out.Unsupported = append(in.out.Unsupported, "channel receive at "+in.fset.Position(x.Pos()).String())
			}
		case *ast.Ident:
			obj := info.Uses[x]
			v, ok := obj.(*types.Var)
			if !ok {
				break
			}
			vid, tracked := in.varIDs[v]
			if !tracked {
				break
			}
			ls := enclosingListStmt()
			if ls == nil {
				break
			}
			w := isWrite(x) || in.opaqueShared(v)
			k := skey{ls, vid, w}
			if sSeen[k] {
				break
			}
			sSeen[k] = true
			sid := in.site("svar", p, funcName(), x.Pos(), in.out.Vars[vid-1].Name)
			wi := 0
			if w {
				wi = 1
			}
			svid := vid
			if isSyncType(v.Type()) {
				// a mutex, pool, once, ... is a place where tasks meet, not data they race on:
				// a scheduling point, never an access for the race rule (negative id)
				svid = -vid
			}
			edits = append(edits, edit{start: off(ls.Pos()), end: off(ls.Pos()),
				text: fmt.Sprintf("zzsimrt.S(%d, %d, %d); ", sid, svid, wi), prio: 2})
			in.out.SPoints++
			usedRT = true
			if ds, isDefer := ls.(*ast.DeferStmt); isDefer {
				// the deferred call touches the variable when the function returns, not here:
				// a second point, deferred just before it, runs right after it (last in, first
				// out) - the moment at which what the call released may be taken by another task
				sid2 := in.site("svar", p, funcName()+".deferred", ds.Pos(), in.out.Vars[vid-1].Name)
				edits = append(edits, edit{start: off(ls.Pos()), end: off(ls.Pos()),
					text: fmt.Sprintf("defer zzsimrt.S(%d, %d, 1); ", sid2, svid), prio: 1})
				in.out.SPoints++
			}
		}
		return true
	}
	in.walk(f, visit)
	if firstErr != nil {
		return firstErr
	}
	if !usedRT {
		return nil
	}
	// import: on the package clause line, so no line numbers move.
	edits = append(edits, edit{start: off(f.Name.End()), end: off(f.Name.End()),
		text: fmt.Sprintf("; import zzsimrt %q", rtImport), prio: 0})
	in.out.Files++

	// apply edits back to front; replacements never overlap insertions because an
	// insertion inside a replaced range header would have been produced only for
	// the range Key/Value/X which we handle above.
	sort.SliceStable(edits, func(i, j int) bool {
		if edits[i].start != edits[j].start {
			return edits[i].start < edits[j].start
		}
		// insertions before replacements that start at the same offset
		ii, jj := edits[i].start == edits[i].end, edits[j].start == edits[j].end
		if ii != jj {
			return ii
		}
		return edits[i].prio < edits[j].prio
	})
	var out strings.Builder
	pos := 0
	for _, e := range edits {
		if e.start < pos {
			return fmt.Errorf("overlapping edits at offset %d (%q)", e.start, e.text)
		}
		out.Write(src[pos:e.start])
		out.WriteString(e.text)
		pos = e.end
	}
	out.Write(src[pos:])
	return os.WriteFile(name, []byte(out.String()), 0o644)
}

// walk is ast.Inspect with an explicit post-visit call (n == nil).
func (in *instr) walk(n ast.Node, visit func(ast.Node) bool) {
	ast.Inspect(n, func(c ast.Node) bool {
		if c == nil {
			visit(nil)
			return true
		}
		if !visit(c) {
			// visit already popped
			return false
		}
		return true
	})
}

func (in *instr) walkChildren(n ast.Node, visit func(ast.Node) bool) {
	if n == nil {
		return
	}
	in.walk(n, visit)
}

func (in *instr) noteUnsupportedCall(c *ast.CallExpr, info *types.Info) {
	sel, ok := c.Fun.(*ast.SelectorExpr)
	if !ok {
		return
	}
	s := info.Selections[sel]
	var obj types.Object
	if s != nil {
		obj = s.Obj()
	} else {
		obj = info.Uses[sel.Sel]
	}
	if obj == nil || obj.Pkg() == nil {
		return
	}
	switch obj.Pkg().Path() {
	case "sync", "sync/atomic":
		in.out.Unsupported = append(in.out.Unsupported,
			fmt.Sprintf("%s.%s at %s", obj.Pkg().Path(), obj.Name(), in.fset.Position(c.Pos())))
	}
}

// opaqueShared: a package-level variable whose type is a pointer or interface type
// declared in a third-party module (not the standard library, not the module under test).
// The simulator cannot see inside such a value; unless its documentation promises
// otherwise it carries state (a text transformer, an encoder, a parser), so every use
// by a task counts as a write for the race rule.
func (in *instr) opaqueShared(v *types.Var) bool {
	t := v.Type()
	if pt, ok := t.(*types.Pointer); ok {
		t = pt.Elem()
	} else if _, isIface := t.Underlying().(*types.Interface); !isIface {
		return false
	}
	nt, ok := t.(*types.Named)
	if !ok || nt.Obj().Pkg() == nil {
		return false
	}
	path := nt.Obj().Pkg().Path()
	first := path
	if i := strings.IndexByte(path, '/'); i >= 0 {
		first = path[:i]
	}
	if !strings.Contains(first, ".") {
		return false // standard library
	}
	if path == in.modPath || strings.HasPrefix(path, in.modPath+"/") {
		return false
	}
	// only values that look like streaming state: a Reset, Transform, Write, Read or Next
	// method (a text transformer, an encoder, a tokenizer). Immutable descriptors such as
	// x/text's charmap.Windows1252 (NewDecoder / NewEncoder only) are shared safely.
	ms := types.NewMethodSet(v.Type())
	for i := 0; i < ms.Len(); i++ {
		switch ms.At(i).Obj().Name() {
		case "Reset", "Transform", "Write", "Read", "Next":
			return true
		}
	}
	return false
}

// isSyncType: sync.Mutex, RWMutex, Once, WaitGroup, Pool, Map, Cond and sync/atomic types
// (also behind a pointer).
func isSyncType(t types.Type) bool {
	if pt, ok := t.(*types.Pointer); ok {
		t = pt.Elem()
	}
	nt, ok := t.(*types.Named)
	if !ok || nt.Obj().Pkg() == nil {
		return false
	}
	p := nt.Obj().Pkg().Path()
	return p == "sync" || p == "sync/atomic"
}

// syncKind classifies a call to a method of sync.Mutex, sync.RWMutex, sync.Locker
// or sync.Once: "lock", "unlock", "once" or "".
func syncKind(c *ast.CallExpr, info *types.Info) string {
	sel, ok := c.Fun.(*ast.SelectorExpr)
	if !ok {
		return ""
	}
	s := info.Selections[sel]
	if s == nil {
		return ""
	}
	fn, ok := s.Obj().(*types.Func)
	if !ok || fn.Pkg() == nil || fn.Pkg().Path() != "sync" {
		return ""
	}
	recv := ""
	if sig, ok := fn.Type().(*types.Signature); ok && sig.Recv() != nil {
		t := sig.Recv().Type()
		if pt, ok := t.(*types.Pointer); ok {
			t = pt.Elem()
		}
		if nt, ok := t.(*types.Named); ok {
			recv = nt.Obj().Name()
		}
	}
	switch recv {
	case "Mutex", "RWMutex", "Locker":
		switch fn.Name() {
		case "Lock", "RLock":
			return "lock"
		case "Unlock", "RUnlock":
			return "unlock"
		}
	case "Once":
		if fn.Name() == "Do" {
			return "once"
		}
	}
	return ""
}

func recvName(e ast.Expr) string {
	switch t := e.(type) {
	case *ast.StarExpr:
		return recvName(t.X)
	case *ast.Ident:
		return t.Name
	case *ast.IndexExpr:
		return recvName(t.X)
	case *ast.IndexListExpr:
		return recvName(t.X)
	}
	return "?"
}

// plainKey: key types for which m[k] finds what range produced (no NaN, no interface).
func plainKey(t types.Type) bool {
	switch u := t.Underlying().(type) {
	case *types.Basic:
		return u.Info()&(types.IsFloat|types.IsComplex) == 0
	case *types.Struct:
		for i := 0; i < u.NumFields(); i++ {
			if !plainKey(u.Field(i).Type()) {
				return false
			}
		}
		return true
	case *types.Array:
		return plainKey(u.Elem())
	case *types.Pointer:
		return true
	}
	return false
}
