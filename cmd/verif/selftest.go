package main

import (
	"fmt"
	"os"
)

func cmdSelftest(kind string, args []string) int {
	fmt.Fprintln(os.Stderr, "selftest", kind, "not implemented yet")
	return 2
}
