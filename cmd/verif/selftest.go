package main

import (
	"fmt"
	"io/fs"
	"os"
	"os/exec"
	"path/filepath"
	"sort"
	"strings"
	"time"
)

// cmdSelftest validates the machinery itself.
//
//	selftest instrument            the repository's tests pass on the instrumented copy under opposite map orders
//	selftest determinism [ID...]   same seeds, several processes / worker counts / GOMAXPROCS: identical event logs
//	selftest mutants [ID...]       every patch in mutants/breaking is reported by its property's check,
//	                               no patch in mutants/benign is
func cmdSelftest(kind string, args []string) int {
	switch kind {
	case "instrument":
		return selftestInstrument()
	case "determinism":
		return selftestDeterminism(args)
	case "mutants":
		return selftestMutants(args)
	}
	fmt.Fprintln(os.Stderr, "unknown selftest", kind)
	return 2
}

func selftestInstrument() int {
	sc, err := prepare()
	if err != nil {
		fmt.Fprintln(os.Stderr, "infrastructure:", err)
		return 2
	}
	defer sc.cleanup()
	// a tiny init file lets the repository's own tests choose the default map order
	hook := `package zzsimrt

import "os"

func init() {
	switch os.Getenv("ZZSIM_MAPORDER") {
	case "asc":
		DefaultMapOrder = 1
	case "desc":
		DefaultMapOrder = 2
	}
}
`
	if err := os.WriteFile(filepath.Join(sc.src, "zzsimrt", "zz_env.go"), []byte(hook), 0o644); err != nil {
		fmt.Fprintln(os.Stderr, err)
		return 2
	}
	rc := 0
	for _, order := range []string{"native", "asc", "desc"} {
		cmd := exec.Command("go", "test", "-vet=off", "-count=1", "./...")
		cmd.Dir = sc.src
		cmd.Env = append(goEnv(), "ZZSIM_MAPORDER="+order)
		out, err := cmd.CombinedOutput()
		fails := 0
		for _, l := range strings.Split(string(out), "\n") {
			if strings.HasPrefix(l, "FAIL") || strings.HasPrefix(l, "--- FAIL") || strings.HasPrefix(l, "panic:") {
				fails++
				fmt.Println("  ", l)
			}
		}
		fmt.Printf("repository tests on the instrumented copy, map order %s: err=%v failing lines=%d\n", order, err, fails)
		if err != nil || fails > 0 {
			rc = 1
		}
	}
	return rc
}

func selftestMutants(only []string) int {
	want := map[string]bool{}
	for _, a := range only {
		want[strings.ToUpper(a)] = true
	}
	rc := 0
	type row struct{ kind, name, prop, verdict string }
	var rows []row
	for _, kind := range []string{"breaking", "benign"} {
		dir := filepath.Join(verifDir(), "mutants", kind)
		ents, _ := os.ReadDir(dir)
		var names []string
		for _, e := range ents {
			if strings.HasSuffix(e.Name(), ".patch") {
				names = append(names, e.Name())
			}
		}
		sort.Strings(names)
		for _, n := range names {
			prop := strings.ToUpper(strings.SplitN(n, "-", 2)[0])
			if len(want) > 0 && !want[prop] {
				continue
			}
			code, out, err := runOnPatchedCopy(filepath.Join(dir, n), prop)
			v := "?"
			switch {
			case err != nil:
				v = "ERROR " + err.Error()
				rc = 2
			case kind == "breaking" && code == 1:
				v = "detected"
			case kind == "breaking":
				v = fmt.Sprintf("MISSED (exit %d)", code)
				rc = 1
			case kind == "benign" && code == 0:
				v = "quiet"
			default:
				v = fmt.Sprintf("FALSE ALARM (exit %d)", code)
				rc = 1
			}
			rows = append(rows, row{kind, n, prop, v})
			fmt.Printf("%-9s %-60s %s\n", kind, n, v)
			if strings.HasPrefix(v, "MISSED") || strings.HasPrefix(v, "FALSE") || strings.HasPrefix(v, "ERROR") {
				fmt.Println(indent(lastLines(out, 12)))
			}
		}
	}
	return rc
}

func indent(s string) string { return "    " + strings.ReplaceAll(s, "\n", "\n    ") }

func lastLines(s string, n int) string {
	l := strings.Split(strings.TrimSpace(s), "\n")
	if len(l) > n {
		l = l[len(l)-n:]
	}
	return strings.Join(l, "\n")
}

// runOnPatchedCopy copies /repo to a scratch directory, applies the patch there
// and runs the property's quick check against the copy.
func runOnPatchedCopy(patch, prop string) (int, string, error) {
	dir, err := os.MkdirTemp(os.TempDir(), "verif-mutant-")
	if err != nil {
		return 0, "", err
	}
	defer os.RemoveAll(dir)
	if err := copyTree(repoDir(), dir, func(rel string, d fs.DirEntry) bool { return rel == ".git" }); err != nil {
		return 0, "", err
	}
	ap := exec.Command("patch", "-p1", "-s", "-i", patch)
	ap.Dir = dir
	if out, err := ap.CombinedOutput(); err != nil {
		return 0, string(out), fmt.Errorf("patch does not apply: %v %s", err, trimStr(string(out), 200))
	}
	self, _ := os.Executable()
	cmd := exec.Command(self, "check", prop, "--tier", "quick")
	cmd.Env = append(os.Environ(), "VERIF_REPO="+dir, "VERIF_EVIDENCE_DIR="+filepath.Join(dir, "zz-evidence"), "VERIF_REPLAY_DIR="+filepath.Join(dir, "zz-replays"))
	out, err := cmd.CombinedOutput()
	code := 0
	if ee, ok := err.(*exec.ExitError); ok {
		code = ee.ExitCode()
	} else if err != nil {
		return 0, string(out), err
	}
	return code, string(out), nil
}

func selftestDeterminism(args []string) int {
	ids := args
	if len(ids) == 0 {
		for id := range props {
			ids = append(ids, id)
		}
		sort.Strings(ids)
	}
	sc, err := prepare()
	if err != nil {
		fmt.Fprintln(os.Stderr, "infrastructure:", err)
		return 2
	}
	defer sc.cleanup()
	rc := 0
	base := envSeed()
	nSeeds := envInt("VERIF_DET_SEEDS", 32)
	for _, id := range ids {
		id = strings.ToUpper(id)
		known, _ := loadKnown(id)
		t0 := time.Now()
		// reference logs: one process per index
		type cfg struct {
			gomaxprocs string
			batchSize  int
		}
		cfgs := []cfg{{"1", 1}, {"4", 1}, {"16", 1}, {"2", 8}, {"16", 32}}
		var ref []string
		bad := 0
		procs := 0
		for ci, c := range cfgs {
			os.Setenv("VERIF_WORKER_GOMAXPROCS", c.gomaxprocs)
			logs := make([]string, nSeeds)
			for from := 0; from < nSeeds; from += c.batchSize {
				to := from + c.batchSize
				if to > nSeeds {
					to = nSeeds
				}
				w, err := startWorker(sc)
				if err != nil {
					fmt.Fprintln(os.Stderr, err)
					return 2
				}
				procs++
				w.send(request{Op: "run", Prop: id, Base: base, From: from, To: to, Tier: "quick", Known: known, Log: true})
				for {
					e, ok, stalled := w.next(opTimeout())
					if !ok || stalled {
						fmt.Fprintf(os.Stderr, "worker died/stalled in determinism test of %s\n", id)
						return 2
					}
					if e.Ev == "result" {
						r := e.Result
						logs[e.Index] = fmt.Sprintf("%s|%s|%d|%s|%s", r.Status, r.Class, r.Steps, r.Fingerprint, strings.Join(r.Log, ";"))
					}
					if e.Ev == "done" {
						break
					}
				}
				w.close()
			}
			if ci == 0 {
				ref = logs
				continue
			}
			for i := range logs {
				if logs[i] != ref[i] {
					bad++
					if bad <= 3 {
						a, b := diffCtx(ref[i], logs[i])
						fmt.Printf("%s: run %d differs between configuration 0 and %d\n  %s\n  %s\n", id, i, ci, a, b)
					}
				}
			}
		}
		os.Unsetenv("VERIF_WORKER_GOMAXPROCS")
		fmt.Printf("%s: %d seeds x %d configurations (%d worker processes, GOMAXPROCS 1/4/16/2/16, batch sizes 1/1/1/8/32): %d differing logs (%.1fs)\n",
			id, nSeeds, len(cfgs), procs, bad, time.Since(t0).Seconds())
		if bad > 0 {
			rc = 1
		}
	}
	return rc
}

func diffCtx(a, b string) (string, string) {
	i := 0
	for i < len(a) && i < len(b) && a[i] == b[i] {
		i++
	}
	cut := func(s string) string {
		lo, hi := i-40, i+80
		if lo < 0 {
			lo = 0
		}
		if hi > len(s) {
			hi = len(s)
		}
		return fmt.Sprintf("@%d %q", i, s[lo:hi])
	}
	return cut(a), cut(b)
}
