package main

import (
	"bufio"
	"encoding/json"
	"fmt"
	"os"
	"path/filepath"
	"runtime"
	"sort"
	"strings"
	"sync"
	"time"
)

// propInfo is the static description of a check.
type propInfo struct {
	level      string
	quickRuns  int
	chunk      int
	rule       string
	assume     []string
	simulated  []string
	thoroughS  int // default wall-clock budget of the thorough tier, seconds
	thoroughMax int // cap on runs in the thorough tier
}

var props = map[string]propInfo{}

type indexed struct {
	index  int
	result *Result
	gcase  *Case // generated case (violations only)
	died   string
}

type batch struct {
	unreproduced int // worker deaths that did not happen again when the run was repeated alone
	prop     string
	tier     string
	base     uint64
	known    []Known
	results  map[int]*indexed
	mu       sync.Mutex
	infraErr error
}

func loadKnown(prop string) ([]Known, error) {
	f, err := os.Open(filepath.Join(verifDir(), "known-findings.jsonl"))
	if err != nil {
		if os.IsNotExist(err) {
			return nil, nil
		}
		return nil, err
	}
	defer f.Close()
	var out []Known
	sc := bufio.NewScanner(f)
	sc.Buffer(make([]byte, 1<<20), 1<<24)
	for sc.Scan() {
		line := strings.TrimSpace(sc.Text())
		if line == "" || strings.HasPrefix(line, "#") {
			continue
		}
		var k Known
		if err := json.Unmarshal([]byte(line), &k); err != nil {
			return nil, fmt.Errorf("known-findings.jsonl: %v", err)
		}
		if k.Property == prop {
			out = append(out, k)
		}
	}
	return out, sc.Err()
}

func hasAll(have, want []string) bool {
	m := map[string]bool{}
	for _, h := range have {
		m[h] = true
	}
	for _, w := range want {
		if !m[w] {
			return false
		}
	}
	return true
}

// matchKnown: a violation is a listed finding when its class matches (if the
// entry names one) and it has all of the entry's features (if it names any).
// "fixed" entries never match: they suppress nothing.
func matchKnown(known []Known, r *Result) *Known {
	for i := range known {
		k := &known[i]
		if k.Status != "known" {
			continue
		}
		if k.Class == "" && len(k.Features) == 0 {
			continue
		}
		if k.Class != "" && k.Class != r.Class {
			continue
		}
		if len(k.Features) > 0 && !hasAll(r.Features, k.Features) {
			continue
		}
		return k
	}
	return nil
}

// runRange executes indices [from,to) on one worker, restarting it when it dies.
func (b *batch) runRange(sc *scratch, from, to int) {
	i := from
	for i < to {
		w, err := startWorker(sc)
		if err != nil {
			b.fail(err)
			return
		}
		if err := w.send(request{Op: "run", Prop: b.prop, Base: b.base, From: i, To: to, Tier: b.tier, Known: b.known}); err != nil {
			b.fail(err)
			w.kill()
			return
		}
		started := -1
		finished := false
		for !finished {
			e, ok, stalled := w.next(opTimeout())
			if stalled || !ok {
				// the run that was announced last is the suspect: repeat it alone
				reason := "stalled"
				if !ok {
					reason = "died"
				}
				if stalled {
					w.kill()
				}
				suspect := started
				if suspect < 0 {
					b.fail(fmt.Errorf("worker %s before starting a run: %s", reason, trimStr(w.stderr.String(), 400)))
					return
				}
				b.confirmAbort(sc, suspect, reason, w.stderr.String())
				i = suspect + 1
				break
			}
			switch e.Ev {
			case "start":
				started = e.Index
			case "result":
				b.mu.Lock()
				b.results[e.Index] = &indexed{index: e.Index, result: e.Result, gcase: e.Case}
				b.mu.Unlock()
				if e.Result != nil && e.Result.Status == "infra" {
					b.fail(fmt.Errorf("run %d: %s", e.Index, e.Result.Detail))
				}
			case "done":
				finished = true
				i = to
			case "error":
				b.fail(fmt.Errorf("worker: %s", e.Err))
				finished = true
				i = to
			}
		}
		if finished {
			w.close()
		}
	}
}

// confirmAbort re-runs a single index alone; if the worker dies or stalls again
// the run is a violation (process abort / hang outside instrumented code),
// otherwise the first failure was not reproducible: infrastructure.
func (b *batch) confirmAbort(sc *scratch, index int, reason, stderr string) {
	w, err := startWorker(sc)
	if err != nil {
		b.fail(err)
		return
	}
	w.send(request{Op: "run", Prop: b.prop, Base: b.base, From: index, To: index + 1, Tier: b.tier, Known: b.known})
	for {
		e, ok, stalled := w.next(opTimeout())
		if stalled || !ok {
			if stalled {
				w.kill()
			}
			cl, det := abortClass(w.stderr.String())
			if stalled {
				cl, det = "hang@uninstrumented", "no result within the wall-clock backstop, twice"
			}
			if cl == "harness-bug" {
				b.fail(fmt.Errorf("run %d: the harness itself panicked: %s", index, det))
				return
			}
			b.mu.Lock()
			b.results[index] = &indexed{index: index, died: cl, result: &Result{Status: "violation", Class: cl,
				Detail: "worker process " + reason + " and did so again when the run was repeated alone: " + det}}
			b.mu.Unlock()
			return
		}
		if e.Ev == "result" {
			w.close()
			// the first attempt fell to its environment (the wall-clock backstop or the kernel's
			// memory pressure with sixteen workers side by side); the run repeated alone is a
			// complete execution of the same run and its verdict - whatever it is - stands
			fmt.Printf("note: run %d made a worker %s once (%s) and completed when repeated alone; the repeated run's verdict is used\n",
				index, reason, trimStr(stderr, 200))
			b.mu.Lock()
			b.results[index] = &indexed{index: index, result: e.Result, gcase: e.Case}
			b.unreproduced++
			b.mu.Unlock()
			return
		}
	}
}

func (b *batch) fail(err error) {
	b.mu.Lock()
	if b.infraErr == nil {
		b.infraErr = err
	}
	b.mu.Unlock()
}

func numWorkers() int {
	n := envInt("VERIF_WORKERS", 0)
	if n <= 0 {
		n = runtime.NumCPU()
		if n > 16 {
			n = 16
		}
	}
	return n
}

// cmdCheck runs one property check.
func cmdCheck(prop, tier string) int {
	pi, ok := props[prop]
	if !ok {
		fmt.Fprintf(os.Stderr, "no check for property %s\n", prop)
		return 2
	}
	t0 := time.Now()
	base := envSeed()
	fmt.Printf("verif check %s tier=%s VERIF_SEED=%d\n", prop, tier, base)
	known, err := loadKnown(prop)
	if err != nil {
		fmt.Fprintln(os.Stderr, err)
		return 2
	}
	sc, err := prepare()
	if err != nil {
		fmt.Fprintln(os.Stderr, "infrastructure:", err)
		return 2
	}
	defer sc.cleanup()
	fmt.Printf("scratch copy instrumented: %d funcs, %d loops, %d map ranges, %d S-points, %d statement points, %d make guards (%.1fs)\n",
		sc.sites.Funcs, sc.sites.Loops, sc.sites.MapRanges, sc.sites.SPoints, sc.sites.Stmts, sc.sites.Makes, time.Since(t0).Seconds())
	for _, u := range sc.sites.Unsupported {
		fmt.Println("note: synchronisation construct in non-test code:", u)
	}

	if prop == "C03" && os.Getenv("VERIF_WORKER_GOMAXPROCS") == "" {
		// one P: whatever per-P state the runtime keeps (sync.Pool) is then a function of the
		// simulated schedule alone
		os.Setenv("VERIF_WORKER_GOMAXPROCS", "1")
	}
	b := &batch{prop: prop, tier: tier, base: base, known: known, results: map[int]*indexed{}}
	total := pi.quickRuns
	if n := envInt("VERIF_RUNS", 0); n > 0 {
		total = n
	}
	var deadline time.Time
	if tier == "thorough" {
		budget := envInt("VERIF_BUDGET_S", pi.thoroughS)
		deadline = time.Now().Add(time.Duration(budget) * time.Second)
		total = pi.thoroughMax
		if n := envInt("VERIF_RUNS", 0); n > 0 {
			total = n
		}
	}
	chunk := pi.chunk
	if chunk <= 0 {
		chunk = 25
	}
	// chunks are handed out in index order; a chunk that was started is always finished
	next := 0
	var nmu sync.Mutex
	take := func() (int, int, bool) {
		nmu.Lock()
		defer nmu.Unlock()
		if next >= total {
			return 0, 0, false
		}
		if !deadline.IsZero() && time.Now().After(deadline) {
			return 0, 0, false
		}
		b.mu.Lock()
		bad := b.infraErr != nil
		b.mu.Unlock()
		if bad {
			return 0, 0, false
		}
		f := next
		t := f + chunk
		if t > total {
			t = total
		}
		next = t
		return f, t, true
	}
	var wg sync.WaitGroup
	for i := 0; i < numWorkers(); i++ {
		wg.Add(1)
		go func() {
			defer wg.Done()
			for {
				f, t, ok := take()
				if !ok {
					return
				}
				b.runRange(sc, f, t)
			}
		}()
	}
	wg.Wait()
	covered := next
	if b.infraErr != nil {
		fmt.Fprintln(os.Stderr, "infrastructure:", b.infraErr)
		return 2
	}

	// known-finding probes
	var knownLines []string
	probeEvals := 0
	if pe, err := ask(sc, request{Op: "probes", Prop: prop, Known: known, Tier: tier}, "cands"); err == nil {
		for _, pc := range pe.Cases {
			r, err := execFresh(sc, pc, known, tier, false)
			if err != nil {
				fmt.Fprintln(os.Stderr, "infrastructure:", err)
				return 2
			}
			probeEvals++
			if r.Status == "violation" {
				if k := matchKnown(known, r); k != nil {
					line := knownLine(prop, k)
					knownLines = appendUnique(knownLines, line)
				} else {
					// a probe that fails differently from its listed finding is a new violation
					b.results[-1000-probeEvals] = &indexed{index: -1000 - probeEvals, result: r, gcase: pc}
				}
			} else if r.Status == "ok" && pc.Note != "" {
				fmt.Printf("note: probe %q no longer fails\n", pc.Note)
			}
		}
	} else {
		fmt.Fprintln(os.Stderr, "infrastructure:", err)
		return 2
	}

	// merge by index
	idx := make([]int, 0, len(b.results))
	for i := range b.results {
		idx = append(idx, i)
	}
	sort.Ints(idx)
	ev := newEvidence(prop, tier, base, pi)
	var viols []*indexed
	for _, i := range idx {
		r := b.results[i]
		ev.add(r)
		if r.result != nil && r.result.Status == "violation" {
			viols = append(viols, r)
			for _, m := range r.result.More {
				ev.classes[m.Class]++
				viols = append(viols, &indexed{index: r.index, result: m, gcase: m.Executed})
			}
		}
	}
	ev.cov["index_range"] = []int{0, covered}
	ev.cov["probe_runs"] = probeEvals

	// classify violations: listed findings (by class) are reported as such; for the
	// rest, the first few distinct classes are minimised, replayed and reported.
	exit := 0
	newClasses := map[string]bool{}
	reported := 0
	maxReport := envInt("VERIF_MAX_REPORT", 3)
	unknown := 0
	for _, v := range viols {
		if k := matchKnown(known, v.result); k != nil {
			knownLines = appendUnique(knownLines, knownLine(prop, k))
			ev.knownHits++
			continue
		}
		unknown++
		if newClasses[v.result.Class] {
			continue
		}
		newClasses[v.result.Class] = true
		if reported >= maxReport {
			continue
		}
		reported++
		path, final, err := reportViolation(sc, b, v)
		if err != nil {
			fmt.Fprintln(os.Stderr, "infrastructure:", err)
			return 2
		}
		if path == "" {
			// minimisation showed it to be a listed finding after all
			if final != nil {
				if k := matchKnown(known, final); k != nil {
					knownLines = appendUnique(knownLines, knownLine(prop, k))
					ev.knownHits++
					unknown--
					continue
				}
			}
			continue
		}
		exit = 1
		fmt.Printf("VIOLATION property=%s replay=%s\n", prop, path)
		fmt.Printf("  class: %s\n  %s\n", final.Class, strings.ReplaceAll(final.Detail, "\n", "\n  "))
	}
	for _, l := range knownLines {
		fmt.Println(l)
	}
	if unknown > 0 && exit == 0 && maxReport > 0 {
		// violations existed but none could be reported (should not happen)
		fmt.Fprintln(os.Stderr, "infrastructure: violations found but none reproduced during reporting")
		return 2
	}
	if unknown > 0 {
		exit = 1
	}
	if len(ev.classes) > 0 {
		type kv struct {
			k string
			v int
		}
		var cl []kv
		for k, v := range ev.classes {
			cl = append(cl, kv{k, v})
		}
		sort.Slice(cl, func(i, j int) bool {
			if cl[i].v != cl[j].v {
				return cl[i].v > cl[j].v
			}
			return cl[i].k < cl[j].k
		})
		fmt.Println("violation classes seen in this batch (runs):")
		for i, c := range cl {
			if i >= 60 {
				fmt.Printf("  ... and %d more\n", len(cl)-i)
				break
			}
			mark := "new"
			if matchKnown(known, &Result{Class: c.k}) != nil {
				mark = "known"
			}
			fmt.Printf("  %6d  %-5s %s\n", c.v, mark, c.k)
		}
	}
	ev.violations = unknown
	ev.knownLines = knownLines
	ev.reach(sc, b)
	if err := ev.write(sc, time.Since(t0)); err != nil {
		fmt.Fprintln(os.Stderr, "infrastructure: evidence:", err)
		return 2
	}
	fmt.Printf("%s: %d runs (indices 0..%d), %d violations not listed as known findings, %d distinct new classes, %.1fs\n",
		prop, ev.evaluations, covered, unknown, len(newClasses), time.Since(t0).Seconds())
	return exit
}

func knownLine(prop string, k *Known) string {
	id := k.Class
	if len(k.Features) > 0 {
		id += " features=" + strings.Join(k.Features, ",")
	}
	return fmt.Sprintf("KNOWN-FINDING: property=%s [%s] %s", prop, strings.TrimSpace(id), k.What)
}

func head(xs []string, n int) []string {
	if len(xs) > n {
		return xs[:n]
	}
	return xs
}

func appendUnique(xs []string, s string) []string {
	for _, x := range xs {
		if x == s {
			return xs
		}
	}
	return append(xs, s)
}

// reportViolation minimises, finalises, replays in a fresh process and writes
// the replay file. It returns "" when the minimised case turns out to match a
// listed finding.
func reportViolation(sc *scratch, b *batch, v *indexed) (string, *Result, error) {
	c := v.gcase
	res := v.result
	if c == nil {
		// the worker died before returning the case: regenerate it by index
		ge, err := ask(sc, request{Op: "run", Prop: b.prop, Base: b.base, From: v.index, To: v.index, Tier: b.tier}, "done")
		_ = ge
		_ = err
		return writeReplayStub(b, v)
	}
	if res.Executed != nil {
		c = res.Executed
	}
	class := res.Class
	c, res = minimise(sc, b, c, res, class)
	if k := matchKnown(b.known, res); k != nil {
		return "", res, nil
	}
	fe, err := ask(sc, request{Op: "final", Case: c, Known: b.known, Tier: b.tier}, "case")
	if err != nil {
		return "", nil, err
	}
	final := fe.Case
	// replay in a fresh process before reporting
	rr, err := execFresh(sc, final, b.known, b.tier, false)
	if err != nil {
		return "", nil, err
	}
	if rr.Status != "violation" || rr.Class != class {
		// When the code under test uses real synchronisation primitives (sync.Pool, mutexes,
		// goroutines: listed by the instrumenter) part of its behaviour is decided by the Go
		// runtime, not by the simulator. A violation is still a violation: retry the replay a few
		// times and report the class that the replay file produces; only a case that never
		// fails again is an infrastructure error.
		var got *Result
		if rr.Status == "violation" {
			got = rr
		}
		for attempt := 0; attempt < 6 && (got == nil || got.Class != class); attempt++ {
			r2, err := execFresh(sc, final, b.known, b.tier, false)
			if err != nil {
				return "", nil, err
			}
			if r2.Status == "violation" && (got == nil || r2.Class == class) {
				got = r2
			}
		}
		if got == nil {
			return "", nil, fmt.Errorf("minimised case of run %d (class %s) did not reproduce in 7 replays (last: %s %s): a source of nondeterminism escaped the simulator",
				v.index, class, rr.Status, rr.Class)
		}
		if got.Class != class {
			note := "the verdict class differs between executions of the same case (" + class + " when found, " + got.Class + " when replayed)"
			if len(sc.sites.Unsupported) > 0 {
				note += "; the code under test uses synchronisation primitives whose behaviour the simulator does not decide: " + strings.Join(head(sc.sites.Unsupported, 3), "; ")
			}
			got.Detail += "\n  note: " + note
			class = got.Class
		}
		rr = got
	}
	dir := replayDir()
	os.MkdirAll(dir, 0o755)
	path := filepath.Join(dir, fmt.Sprintf("%s-%d-%d.json", b.prop, b.base, v.index))
	doc := map[string]interface{}{
		"property": b.prop, "class": class, "detail": rr.Detail, "features": rr.Features,
		"verif_seed": b.base, "run_index": v.index, "case": final,
	}
	out, _ := json.MarshalIndent(doc, "", " ")
	if err := os.WriteFile(path, out, 0o644); err != nil {
		return "", nil, err
	}
	return path, rr, nil
}

func writeReplayStub(b *batch, v *indexed) (string, *Result, error) {
	dir := replayDir()
	os.MkdirAll(dir, 0o755)
	path := filepath.Join(dir, fmt.Sprintf("%s-%d-%d.json", b.prop, b.base, v.index))
	doc := map[string]interface{}{
		"property": b.prop, "class": v.result.Class, "detail": v.result.Detail,
		"verif_seed": b.base, "run_index": v.index, "regenerate": true,
	}
	out, _ := json.MarshalIndent(doc, "", " ")
	if err := os.WriteFile(path, out, 0o644); err != nil {
		return "", nil, err
	}
	return path, v.result, nil
}

// minimise: greedy delta debugging over the candidates the harness proposes;
// a candidate is kept when the same verdict class persists.
func minimise(sc *scratch, b *batch, c *Case, res *Result, class string) (*Case, *Result) {
	budget := envInt("VERIF_MIN_EXECS", 300)
	deadline := time.Now().Add(time.Duration(envInt("VERIF_MIN_S", 150)) * time.Second)
	execs := 0
	for {
		ce, err := ask(sc, request{Op: "shrink", Case: c, Known: b.known, Tier: b.tier}, "cands")
		if err != nil || len(ce.Cases) == 0 {
			return c, res
		}
		improved := false
		for _, cand := range ce.Cases {
			if execs >= budget || time.Now().After(deadline) {
				return c, res
			}
			execs++
			r, err := execFresh(sc, cand, b.known, b.tier, false)
			if err != nil || r == nil {
				continue
			}
			if r.Status == "violation" && r.Class == class {
				c, res = cand, r
				if r.Executed != nil {
					c = r.Executed
				}
				improved = true
				break
			}
		}
		if !improved {
			return c, res
		}
	}
}

// cmdReplay re-executes a replay file against the current tree.
func cmdReplay(path string) int {
	raw, err := os.ReadFile(path)
	if err != nil {
		fmt.Fprintln(os.Stderr, err)
		return 2
	}
	var doc struct {
		Property   string `json:"property"`
		Class      string `json:"class"`
		Seed       uint64 `json:"verif_seed"`
		RunIndex   int    `json:"run_index"`
		Regenerate bool   `json:"regenerate"`
		Case       *Case  `json:"case"`
	}
	if err := json.Unmarshal(raw, &doc); err != nil {
		fmt.Fprintln(os.Stderr, "bad replay file:", err)
		return 2
	}
	known, _ := loadKnown(doc.Property)
	sc, err := prepare()
	if err != nil {
		fmt.Fprintln(os.Stderr, "infrastructure:", err)
		return 2
	}
	defer sc.cleanup()
	var r *Result
	if doc.Regenerate || doc.Case == nil {
		b := &batch{prop: doc.Property, tier: "quick", base: doc.Seed, known: known, results: map[int]*indexed{}}
		b.runRange(sc, doc.RunIndex, doc.RunIndex+1)
		if ix := b.results[doc.RunIndex]; ix != nil {
			r = ix.result
		}
	} else {
		r, err = execFresh(sc, doc.Case, known, "quick", false)
		if err != nil {
			fmt.Fprintln(os.Stderr, "infrastructure:", err)
			return 2
		}
	}
	if r != nil && r.Status == "violation" {
		same := "same class"
		if r.Class != doc.Class {
			same = "different class (recorded " + doc.Class + ")"
		}
		fmt.Printf("VIOLATION property=%s replay=%s\n  class: %s (%s)\n  %s\n", doc.Property, path, r.Class, same,
			strings.ReplaceAll(r.Detail, "\n", "\n  "))
		return 1
	}
	fmt.Printf("replay of %s: no violation on the current tree\n", path)
	return 0
}
