package main

import (
	"bufio"
	"bytes"
	"encoding/json"
	"fmt"
	"io"
	"os"
	"os/exec"
	"strings"
	"sync"
	"time"
)

// ---- protocol types (mirror of harness/sim and harness/worker) ----

type Case struct {
	Prop   string            `json:"prop"`
	Seed   uint64            `json:"seed"`
	Index  int               `json:"index"`
	Mode   string            `json:"mode"`
	Spec   json.RawMessage   `json:"spec"`
	Images map[string][]byte `json:"images,omitempty"`
	Note   string            `json:"note,omitempty"`
}

type Result struct {
	Status      string           `json:"status"`
	Class       string           `json:"class,omitempty"`
	Detail      string           `json:"detail,omitempty"`
	Features    []string         `json:"features,omitempty"`
	Fingerprint string           `json:"fp,omitempty"`
	Nontrivial  bool             `json:"nontrivial"`
	Counters    map[string]int64 `json:"counters,omitempty"`
	Steps       int64            `json:"steps"`
	Sample      json.RawMessage  `json:"sample,omitempty"`
	Log         []string         `json:"log,omitempty"`
	Executed    *Case            `json:"executed,omitempty"`
	More        []*Result        `json:"more,omitempty"`
}

type Known struct {
	Property string   `json:"property"`
	Status   string   `json:"status"`
	Class    string   `json:"class,omitempty"`
	Features []string `json:"features,omitempty"`
	What     string   `json:"what"`
	Commit   string   `json:"commit,omitempty"`
}

type request struct {
	Op    string  `json:"op"`
	Prop  string  `json:"prop,omitempty"`
	Base  uint64  `json:"base,omitempty"`
	From  int     `json:"from,omitempty"`
	To    int     `json:"to,omitempty"`
	Tier  string  `json:"tier,omitempty"`
	Known []Known `json:"known,omitempty"`
	Case  *Case   `json:"case,omitempty"`
	Log   bool    `json:"log,omitempty"`
}

type event struct {
	Ev     string            `json:"ev"`
	Index  int               `json:"index"`
	Result *Result           `json:"result,omitempty"`
	Case   *Case             `json:"case,omitempty"`
	Cases  []*Case           `json:"cases,omitempty"`
	Hits   map[string]uint32 `json:"hits,omitempty"`
	Err    string            `json:"err,omitempty"`
}

// ---- one worker process ----

type worker struct {
	cmd    *exec.Cmd
	in     io.WriteCloser
	out    *bufio.Reader
	stderr *bytes.Buffer
	events chan event
	dead   chan struct{}
}

func startWorker(sc *scratch) (*worker, error) {
	cmd := exec.Command(sc.worker)
	cmd.Env = append(os.Environ(), "ZZSIM_DISK="+sc.dir, "GOMAXPROCS="+envOr("VERIF_WORKER_GOMAXPROCS", "2"), "GOTRACEBACK=single")
	in, err := cmd.StdinPipe()
	if err != nil {
		return nil, err
	}
	outp, err := cmd.StdoutPipe()
	if err != nil {
		return nil, err
	}
	w := &worker{cmd: cmd, in: in, stderr: &bytes.Buffer{}, events: make(chan event, 64), dead: make(chan struct{})}
	cmd.Stderr = &capWriter{buf: w.stderr, max: 256 << 10}
	if err := cmd.Start(); err != nil {
		return nil, err
	}
	go func() {
		rd := bufio.NewReaderSize(outp, 1<<20)
		for {
			line, err := rd.ReadBytes('\n')
			if len(line) > 0 {
				var e event
				if jerr := json.Unmarshal(line, &e); jerr == nil {
					w.events <- e
				} else {
					w.events <- event{Ev: "error", Err: "unparsable worker output: " + trimStr(string(line), 200)}
				}
			}
			if err != nil {
				break
			}
		}
		cmd.Wait()
		close(w.dead)
		close(w.events)
	}()
	return w, nil
}

func envOr(k, d string) string {
	if v := os.Getenv(k); v != "" {
		return v
	}
	return d
}

type capWriter struct {
	buf *bytes.Buffer
	max int
	mu  sync.Mutex
}

func (c *capWriter) Write(p []byte) (int, error) {
	c.mu.Lock()
	defer c.mu.Unlock()
	if c.buf.Len() < c.max {
		room := c.max - c.buf.Len()
		if len(p) > room {
			c.buf.Write(p[:room])
		} else {
			c.buf.Write(p)
		}
	}
	return len(p), nil
}

func (w *worker) send(r request) error {
	b, err := json.Marshal(r)
	if err != nil {
		return err
	}
	b = append(b, '\n')
	_, err = w.in.Write(b)
	return err
}

func (w *worker) kill() {
	w.in.Close()
	if w.cmd.Process != nil {
		w.cmd.Process.Kill()
	}
	<-w.dead
}

func (w *worker) close() {
	w.in.Close()
	select {
	case <-w.dead:
	case <-time.After(5 * time.Second):
		w.cmd.Process.Kill()
		<-w.dead
	}
}

// next waits for the next event; ok=false when the worker died or stalled.
func (w *worker) next(timeout time.Duration) (event, bool, bool) {
	select {
	case e, ok := <-w.events:
		return e, ok, false
	case <-time.After(timeout):
		return event{}, false, true
	}
}

func trimStr(s string, n int) string {
	if len(s) > n {
		return s[:n] + "..."
	}
	return s
}

// abortClass summarises why a worker died, from its stderr.
func abortClass(stderr string) (class, detail string) {
	lines := strings.Split(stderr, "\n")
	first := ""
	for _, l := range lines {
		if strings.HasPrefix(l, "fatal error:") || strings.HasPrefix(l, "runtime:") || strings.HasPrefix(l, "panic:") {
			first = l
			if strings.HasPrefix(l, "fatal error:") {
				break
			}
		}
	}
	isFrame := func(l string) bool {
		return l != "" && !strings.HasPrefix(l, "\t") && strings.Contains(l, "(") && !strings.HasPrefix(l, "goroutine ")
	}
	// a Go panic (not a fatal runtime error such as stack exhaustion, whose top frame is
	// whatever happened to run last) raised by the harness itself - generators, oracles - is
	// a bug of the machinery, never a verdict about the library
	if strings.HasPrefix(first, "panic:") {
		inTrace := false
		for _, l := range lines {
			if strings.HasPrefix(l, "goroutine ") {
				inTrace = true
				continue
			}
			if !inTrace || !isFrame(l) {
				continue
			}
			if strings.HasPrefix(l, "panic(") || strings.HasPrefix(l, "runtime.") || strings.HasPrefix(l, "runtime/") {
				continue
			}
			if strings.Contains(l, "/zzharness/") || strings.Contains(l, "/zzsimrt.") {
				return "harness-bug", trimStr(first+" in "+l, 300)
			}
			break
		}
	}
	frame := "?"
	for _, l := range lines {
		if (strings.HasPrefix(l, "github.com/tsawler/tabula/") || strings.HasPrefix(l, "github.com/tsawler/tabula.")) &&
			!strings.Contains(l, "/zzsimrt.") && !strings.Contains(l, "/zzharness/") {
			frame = l
			if i := strings.LastIndex(frame, "("); i > 0 {
				frame = frame[:i]
			}
			frame = strings.TrimPrefix(frame, "github.com/tsawler/tabula/")
			frame = strings.TrimPrefix(frame, "github.com/tsawler/")
			frame = strings.ReplaceAll(strings.ReplaceAll(frame, "(*", ""), ")", "")
			break
		}
	}
	kind := "abort"
	if strings.Contains(first, "stack") {
		kind = "stack"
	} else if strings.Contains(first, "out of memory") || strings.Contains(first, "cannot allocate") {
		kind = "oom"
	}
	return kind + "@" + frame, trimStr(first, 200)
}

// execFresh executes one case in a fresh worker process.
func execFresh(sc *scratch, c *Case, known []Known, tier string, logEvents bool) (*Result, error) {
	w, err := startWorker(sc)
	if err != nil {
		return nil, err
	}
	defer w.close()
	if err := w.send(request{Op: "exec", Case: c, Known: known, Tier: tier, Log: logEvents}); err != nil {
		return nil, err
	}
	for {
		e, ok, stalled := w.next(opTimeout())
		if stalled {
			w.kill()
			return &Result{Status: "violation", Class: "hang@uninstrumented", Detail: "no result within the wall-clock backstop"}, nil
		}
		if !ok {
			cl, det := abortClass(w.stderr.String())
			return &Result{Status: "violation", Class: cl, Detail: "worker process died: " + det}, nil
		}
		switch e.Ev {
		case "result":
			return e.Result, nil
		case "error":
			return nil, fmt.Errorf("worker: %s", e.Err)
		}
	}
}

func opTimeout() time.Duration {
	return time.Duration(envInt("VERIF_OP_TIMEOUT_S", 180)) * time.Second
}

// ask sends a request that is answered by a single event of kind want.
func ask(sc *scratch, r request, want string) (event, error) {
	w, err := startWorker(sc)
	if err != nil {
		return event{}, err
	}
	defer w.close()
	if err := w.send(r); err != nil {
		return event{}, err
	}
	for {
		e, ok, stalled := w.next(opTimeout())
		if stalled || !ok {
			return event{}, fmt.Errorf("worker gave no answer to %s (stderr: %s)", r.Op, trimStr(w.stderr.String(), 400))
		}
		if e.Ev == want {
			return e, nil
		}
		if e.Ev == "error" {
			return event{}, fmt.Errorf("worker: %s", e.Err)
		}
	}
}
