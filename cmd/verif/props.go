package main

func init() {
	props["C03"] = propInfo{
		level:     "exploration",
		quickRuns: 8000, chunk: 1, thoroughS: 600, thoroughMax: 2000000,
		rule: "run i draws from splitmix64(VERIF_SEED, C03, i): mode (60% scheduled run of 2-4 tasks on distinct pool documents under a seeded (task, quantum) schedule; 30% single-task call history of 2-6 operations; 10% one operation under a seeded map-iteration order), documents from a seeded pool that changes every 200 runs (PDF from the independent writer in all its layouts, PDFs and office packages with one fault of the C02 catalogue, content streams incl. operand-only / mid-operand / failing inputs, HTML incl. pages whose class names come in several spellings, DOCX, XLSX, PPTX, ODT, EPUB), operations from the public entry points, incl. the same call repeated on one reader / one configured extractor / one chunk collection / one format reader, and an extractor asked again after a failed open. A run is non-trivial when it had at least one context switch (scheduled), more than one operation (history) or a non-identity map order; distinct = distinct hash of the (from-task, to-task, site) sequence at context switches together with the task programs, or distinct (operation list, map seed).",
		assume: []string{
			"solo references are computed by this worker binary in a fresh child process, twice (two map orders)",
			"context switches happen only at instrumented points (function entries, loop iterations, statement boundaries, accesses to package-level variables incl. the moment after a deferred one); a task is not switched out while it holds a sync.Mutex / RWMutex or runs inside sync.Once.Do; code of dependencies is not instrumented, so a call into it is atomic; state shared through pointers that were copied out of package variables is seen only when it changes an output",
			"concurrent use of one extractor by two tasks is outside the statement and is not generated",
		},
		simulated: []string{"caller tasks and the scheduler that interleaves them", "map iteration order", "file images and their producer (independent PDF writer, content-stream and HTML generators)"},
	}
	props["C01"] = propInfo{
		level:     "exploration",
		quickRuns: 10000, chunk: 100, thoroughS: 600, thoroughMax: 50000000,
		rule: "run i draws a document spec (every physical-layout dimension an explicit field, swarm style) and a per-revision access history from splitmix64(VERIF_SEED, C01, i); the independent writer commits the file revision by revision to the simulated disk (30% of single-revision documents with one content piece made unloadable: that page fails or is complete) and after each commit the history (page count, pages in any order via reader and extractor APIs, boxes, rotation, font resources, cache clears, reopen, extractor sharing the reader) is executed and every answer compared with the writer's record of the newest revision; Text / Markdown / JSONL / Document of the whole file must equal those of the same logical document stored plainly. Specs that contain a listed known finding's feature set are steered away from it (probed separately). Non-trivial = at least one non-default layout feature and a non-empty history; distinct = distinct (feature set, history shape).",
		assume: []string{
			"the independent writer (harness/pdfw) emits well-formed PDF for every spec it accepts; expected text uses only code points whose encoding is beyond doubt",
			"layouts the writer does not produce (encryption, hybrid-reference files, linearisation) are not decided",
			"the layout x document quantifier is sampled as workload; what the simulator adds is the revision-by-revision commit protocol, access histories on the stateful reader and the map-order seam",
		},
		simulated: []string{"the writer/reader protocol over the simulated disk (append-only revisions)", "reader access histories", "map iteration order"},
	}
	anchors["C01"] = []string{"reader.Reader.loadXRef", "core.XRefParser.ParseAllXRefs", "core.MergeXRefTables", "reader.Reader.GetObject",
		"reader.Reader.getUncompressedObject", "reader.Reader.getCompressedObject", "core.Parser.parseStream", "core.Lexer.ReadBytes",
		"pages.PageTree.traversePageNode", "pages.Page.getBox", "pages.Page.Resources", "pages.Page.Rotate",
		"reader.Reader.extractTextWithFragments", "text.Extractor.RegisterFontsFromResources", "text.Extractor.showText",
		"core.XRefParser.parseXRefStream", "core.ObjectStream.GetObjectByIndex"}
	props["C04"] = propInfo{
		level:     "exploration",
		quickRuns: 12000, chunk: 100, thoroughS: 600, thoroughMax: 50000000,
		rule: "indices below the size of the small space enumerate it exhaustively: n=2 object numbers, r<=2 revisions (quick) or r<=3 (thorough), every assignment of {untouched, set plainly, set in an object stream, delete} per object and revision, every cross-reference kind sequence (incl. a table appended after a stream), each with a seeded canonical lookup history (all numbers incl. never-defined ones and 0, cache clear, mixed get/xref/resolve/deep, all numbers again). Beyond that, run i draws n<=12 objects, r<=5 revisions of add/replace/delete with unique tagged values (ints, reals, strings, names, arrays, dicts, streams with direct or indirect /Length, the length object optionally in an object stream), values that refer to other objects of the playground (deleted later), table/stream history in any order, a first revision laid out like a linearized file (first section with a forward /Prev), 8% with 150-1050 further objects and sparse bulk updates in every end-of-line style, containers optionally repacked and freed later, and per-revision lookup histories of 3-40 steps (4%: 120-240 steps hammering one long-lived resolver) over get/resolve/deep/xref/resolver lookups with repeats, cache clears and reopen; 25% of the sampled runs put a simulated object source between resolver.ObjectResolver and the reader that fails chosen lookups once and let the file read as empty during single lookups; others misdirect one cross-reference entry at another object's superseded body. Non-trivial = more than one revision or any storage feature; distinct = distinct (revision plan, history).",
		assume: []string{
			"the independent writer's files are well formed; every written value is unique so each successful lookup is attributable to one write",
			"references inside values only target objects that are never deleted (the property is silent about dangling references)",
			"torn last revisions are exercised under C02 only",
		},
		simulated: []string{"the file as an append-only log written by an independent writer", "lookup histories incl. cache clears and reopen", "object source behind resolver.ObjectReader with injected lookup failures"},
	}
	anchors["C04"] = []string{"core.XRefParser.ParseAllXRefs", "core.MergeXRefTables", "reader.Reader.GetObject", "reader.Reader.getCompressedObject",
		"core.ObjectStream.GetObjectByIndex", "reader.Reader.ClearCache", "reader.Reader.ResolveDeep", "resolver.ObjectResolver.resolve",
		"core.XRefParser.parseXRefStream", "core.XRefParser.parseTraditionalXRef"}
	props["C10"] = propInfo{
		level:     "exploration",
		quickRuns: 4000, chunk: 50, thoroughS: 600, thoroughMax: 50000000,
		rule: "run i draws a 2-6 page PDF (4%: 17-46 pages; forms with their own font names, running heads, headings, blank pages, per-page inline fonts) from the independent writer (25%: an HTML, DOCX, ODT, XLSX, PPTX or EPUB file for the handle and descriptor part only) and a program of 3-25 calls over up to 8 handles: Open / FromReader roots, derived handles (Pages with any order, duplicates, 0, negatives, count+1; PageRange incl. reversed; the five option builders) from any existing handle incl. used ones, non-terminal PageCount / IsMultiColumn / IsCharacterLevel, terminal Text / Fragments / Lines / Document / Chunks / ToMarkdown, Close. 25% of the runs damage the file at rest (truncate, zero sector, bit flip) or replace it by a file-system object fault (directory, dangling symlink, empty file, /dev/null); a further 15% make exactly one page unloadable (the others must behave as in the intact file and never carry another page's text). Oracle: composition from the library's own single-page results of fresh handles, true source page numbers in the model and chunk metadata, error for out-of-range pages, and the descriptor ledger (/proc/self/fd entries on the document) equal to the model's open set after every call, with a double Close of everything at the end. Non-trivial = more than two calls; distinct = distinct program text + fault + format.",
		assume: []string{
			"what an explicitly empty selection (Pages() or a reversed range only) means is not stated by the property and is not judged",
			"warnings are not part of the compared results",
			"panics of PDF-only calls on other formats are property C02's subject and are not judged here",
		},
		simulated: []string{"call histories on shared base extractors and derived handles", "at-rest storage faults and kernel-provided file-system object faults", "the descriptor ledger's view of /proc/self/fd"},
	}
	anchors["C10"] = []string{"tabula.Extractor.resolvePages", "tabula.Extractor.clone", "tabula.ExtractOptions.clone", "tabula.Extractor.Text",
		"tabula.Extractor.Document", "model.Document.AddPage", "tabula.Extractor.Close", "tabula.Extractor.ensureReader", "reader.Open",
		"tabula.Extractor.Chunks", "tabula.Extractor.PageRange", "tabula.Extractor.Fragments"}
	props["C02"] = propInfo{
		level:     "fault_enumeration",
		quickRuns: 5040, chunk: 8, thoroughS: 900, thoroughMax: 50000000,
		rule: "run i = (format slot i mod 8 - PDF holds two of the eight slots -, document j mod D, block j/D, j counting the format's runs) with D = 2 documents per format (quick) or 40 (thorough), all from the harness's independent generators. Blocks 0..n-1 enumerate, 48 at a time and in a fixed order, EVERY single fault of the catalogue for that document: PDF - every field of every object incl. stream dictionaries, xref-stream dictionary and trailer replaced by each bad value (0, -1, 2^31, 2^63-1, a 400-digit integer, ...), every reference retargeted (itself, the catalog, free object 0, a missing object, a direct integer, dropped), arrays emptied / shortened / doubled, stream bodies corrupted five ways, /Prev made cyclic five ways per revision (all regenerated through the writer so that offsets stay valid), plus every numeric token / delimiter / keyword of the file text mutated, truncation at every byte (images <= 4 KiB) or token and sector boundary, every 512-byte sector zeroed / dropped / duplicated / swapped, every structural byte replaced by each of 13 structural characters; ZIP formats - every member dropped, duplicated, emptied, renamed, made a directory, CRC / compressed data / method / names / sizes / offset damaged, end-of-central-directory fields damaged, every XML part truncated at every tag boundary, closing tags dropped, opening tags doubled, every numeric / cell-reference / path attribute and numeric text replaced by bad values; HTML - the same markup faults plus nesting to depth 5000. For PDF the next m blocks enumerate EVERY structured fault pair of the document: each reference that sits in a collection with 2-4 references (/Kids, an /XObject or /Font dictionary, a page's entries) pointed at its container or at the object a sibling entry names (which makes form XObjects, page tree nodes and resource chains cyclic), combined with each of up to ~20 ways of making another sibling's object fail (content stream replaced by an unclosed string / stray delimiter / open dictionary / open array / cut in the middle, stream body corrupted or halved, each of its first six dictionary entries replaced by a bad value or dropped) - the error path then runs inside the recursion that a depth or visited guard has to stop. Blocks beyond alternate seeded double faults (24 pairs, half of them neighbours in the enumeration, i.e. the same object / member / region; 15% under a wrong file extension) and in-flight read errors on the io.Reader / io.ReaderAt / io.ReadSeeker entry points. Every fault set is run through the format's entry points (quick: 3-4 cheapest for singles, all for doubles; thorough: all ~30). Non-trivial = at least one evaluation; distinct = distinct (format, document, kind, block).",
		assume: []string{
			"bounds: step budget 300 x (steps of the same operation on the undamaged image) x (growth of the image)^2 + 2*10^8; single allocation <= 256 MiB; goroutine stack <= 256 MiB; wall-clock backstop 180 s per run for loops outside instrumented code",
			"nothing is said about what a damaged document yields, only that the call returns",
			"images are <= 8 KiB for enumeration; coverage-guided byte mutation is approximated by the exhaustive structural enumeration, not by a coverage-guided fuzzer",
		},
		simulated: []string{"the stored image and every fault between its producer and the reader (torn / short / lost / misdirected writes, bit rot, field-level corruption, container damage)", "in-flight read errors and chunking on io.Reader / io.ReaderAt / io.ReadSeeker entry points", "deterministic step, allocation and stack budgets"},
	}
	anchors["C02"] = []string{"core.Parser.nextToken", "core.Parser.ParseObject", "core.Parser.parseDict", "core.Parser.parseArray", "core.Parser.ParseIndirectObject",
		"core.Lexer.ReadBytes", "core.XRefParser.parseXRefStream", "core.XRefParser.parseXRefStreamEntry", "core.ObjectStream.parseHeader",
		"core.ObjectStream.GetObjectByIndex", "filters.applyPNGPredictor", "filters.applyTIFFPredictor2", "tabula.Extractor.resolvePages",
		"xlsx.Reader.parseWorksheet", "core.XRefParser.ParseAllXRefs", "pages.PageTree.traversePageNode", "reader.Reader.ResolveDeep",
		"text.Extractor.invokeXObject", "tabula.Extractor.IsCharacterLevel", "docx.Open", "odt.Open", "pptx.Open", "epubdoc.Open", "htmldoc.OpenReader", "format.DetectFromReader"}
	props["C14"] = propInfo{
		level:     "exploration",
		quickRuns: 12000, chunk: 200, thoroughS: 600, thoroughMax: 50000000,
		rule: "run i draws a chunk collection (0-40 chunks; ids, texts, titles and section paths assembled from a hostile vocabulary: delimiters, quotes, CR / LF / CRLF, NUL, non-BMP, JSON-looking text, formula-looking text, U+2028, BOM), an export configuration (JSONL / JSON / CSV / TSV, flattening, metadata include lists incl. unknown fields, header on/off, pretty printing, custom column names, batch size 1-12) and an operation (Export to a writer, ExportToFile, BatchExporter with a callback, StreamExporter histories of WriteChunk / Close, Pinecone / Chroma / Weaviate records, collection filters and filter chains). 45% of the runs inject a sink fault at a byte offset class computed from the fault-free output (0, inside the header, inside a record, exactly at a record boundary, the last bytes, never): a writer that accepts b bytes and then returns (n < len, ENOSPC) forever, a writer that fails exactly one write and recovers, /dev/full or an uncreatable path as ExportToFile target, a callback that fails at batch j. Oracle: output parsed with encoding/json / encoding/csv to one record per chunk in order with equal id, text, titles, pages, index, flags, section path and sampled metadata; batches and streamed records partition the chunk list exactly once in order; success is only reported when the sink holds a complete export; what reached the sink before a reported failure is a prefix of the fault-free output; no batch after a failed callback; filters return exactly the satisfying chunks in order. Non-trivial = at least one chunk; distinct = distinct (operation, configuration, sink fault class, sizes).",
		assume: []string{
			"CR LF inside a CSV field is compared after the normalisation encoding/csv itself applies when reading (CR LF -> LF)",
			"CSV metadata columns holding lists or floats are not compared value by value (their text form is not uniquely parseable); ids, text, titles, pages, index and flags are",
			"batch sizes are >= 1; chunk texts are valid UTF-8",
		},
		simulated: []string{"the sink behind io.Writer (disk full, short write, transient failure)", "ExportToFile targets (/dev/full, uncreatable path)", "the batch callback", "StreamExporter call histories"},
	}
	anchors["C14"] = []string{"rag.Exporter.exportJSONL", "rag.Exporter.exportJSON", "rag.Exporter.exportCSV", "rag.Exporter.collectCSVColumns", "rag.Exporter.chunkToCSVRow",
		"rag.BatchExporter.Export", "rag.StreamExporter.WriteChunk", "rag.StreamExporter.Close", "rag.ChunkCollection.Filter", "rag.EmbeddingExporter.ExportForPinecone",
		"rag.EmbeddingExporter.ExportForChroma", "rag.EmbeddingExporter.ExportForWeaviate", "rag.Exporter.ExportToFile"}
	props["C19"] = propInfo{
		level:     "exploration",
		quickRuns: 4000, chunk: 50, thoroughS: 600, thoroughMax: 50000000,
		rule: "run i draws a DOM of 3-120 content elements (headings, paragraphs, nested lists, tables with spans, pre/code, block quotes, scripts/styles, unclosed tags, entities) inside neutral wrappers, nav/aside/header/footer, ARIA roles, class/id names from and near the exclusion vocabulary and link-dense blocks; every text carries a unique token and a flag 'outside every candidate subtree'. It also draws an entry point (file, io.Reader fed in seeded chunks incl. (n, EOF) and (0, nil) deliveries, string, EPUB chapter), a query history of 2-16 (renderer, mode) queries with repeats on ONE reader, optionally a read error at byte b, optionally a map-order seed. Oracle: mode None = every token once in document order, no script/style/markup, entities decoded; each stricter mode's token sequence is a subsequence of the next weaker one; flagged texts present in all modes; every query of the history equals the same query on a fresh reader; all entry points agree with the string entry point; an injected read error is reported as an error. Non-trivial = more than one content text and more than one query; distinct = distinct (entry, page, history, fault).",
		assume: []string{
			"whether the library's exclusion heuristics agree with a reading of them on a particular class name is never judged: only relations between modes and texts outside every candidate subtree are",
			"the DOM variety is workload sampling; the simulator contributes the query history on the caching reader, stream chunking / failure and map order",
		},
		simulated: []string{"query histories on the stateful, caching htmldoc.Reader", "the byte stream behind io.Reader (chunking, (n,EOF), (0,nil), injected error)", "map iteration order"},
	}
	anchors["C19"] = []string{"htmldoc.Reader.traverseNodeFiltered", "htmldoc.Reader.parseTable", "htmldoc.Reader.getElements", "htmldoc.exclusionChecker.shouldExclude",
		"htmldoc.exclusionChecker.shouldExcludeExplicit", "htmldoc.exclusionChecker.shouldExcludeByPattern", "htmldoc.exclusionChecker.shouldExcludeByLinkDensity",
		"htmldoc.OpenReader", "tabula.FromHTMLReader", "epubdoc.Reader.TextWithOptions", "htmldoc.Reader.TextWithOptions", "htmldoc.Reader.MarkdownWithOptions", "htmldoc.Reader.DocumentWithOptions"}
	anchors["C03"] = []string{"contentstream.Parser.parseNext", "contentstream.Parser.parseOperator", "text.Extractor.RegisterFontsFromResources",
		"rag.Exporter.collectCSVColumns", "layout.LineDetector.calculateAdaptiveTolerance", "tabula.Extractor.clone", "tabula.ExtractOptions.clone",
		"core.Dict.String", "rag.flattenMetadata"}
}
