package main

func init() {
	props["C03"] = propInfo{
		level:     "exploration",
		quickRuns: 2400, chunk: 1, thoroughS: 600, thoroughMax: 2000000,
		rule: "run i draws from splitmix64(VERIF_SEED, C03, i): mode (60% scheduled run of 2-4 tasks on distinct pool documents under a seeded (task, quantum) schedule; 30% single-task call history of 2-6 operations; 10% one operation under a seeded map-iteration order), documents from a seeded pool (PDF from the independent writer, content streams incl. operand-only / mid-operand / failing inputs, HTML), operations from the public entry points. A run is non-trivial when it had at least one context switch (scheduled), more than one operation (history) or a non-identity map order; distinct = distinct hash of the (from-task, to-task, site) sequence at context switches together with the task programs, or distinct (operation list, map seed).",
		assume: []string{
			"solo references are computed by this worker binary in a fresh child process, twice (two map orders)",
			"context switches happen only at instrumented points (function entries, loop iterations, accesses to package-level variables); state shared through pointers that were copied out of package variables is seen only when it changes an output",
			"concurrent use of one extractor by two tasks is outside the statement and is not generated",
		},
		simulated: []string{"caller tasks and the scheduler that interleaves them", "map iteration order", "file images and their producer (independent PDF writer, content-stream and HTML generators)"},
	}
	anchors["C03"] = []string{"contentstream.Parser.parseNext", "contentstream.Parser.parseOperator", "text.Extractor.RegisterFontsFromResources",
		"rag.Exporter.collectCSVColumns", "layout.LineDetector.calculateAdaptiveTolerance", "tabula.Extractor.clone", "tabula.ExtractOptions.clone",
		"core.Dict.String", "rag.flattenMetadata"}
}
