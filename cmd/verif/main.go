// Command verif is the runner of the deterministic-simulation checks for
// tsawler/tabula: it copies /repo's working tree to a scratch directory,
// instruments the copy, builds the worker inside it, spreads seeded runs over
// worker processes, merges results by run index, minimises and replays
// violations, and writes evidence.
//
//	verif check <ID> [--tier quick|thorough]
//	verif replay <file>
//	verif selftest instrument|determinism [<ID>...]
//	verif prepare            (development: build the scratch copy and print its path)
//
// Exit status: 0 property held on everything explored, 1 violation (a line
// "VIOLATION property=<id> replay=<path>" is printed), 2 infrastructure trouble.
package main

import (
	"fmt"
	"os"
	"path/filepath"
	"strconv"
	"strings"
)

func main() {
	if len(os.Args) < 2 {
		usage()
	}
	switch os.Args[1] {
	case "check":
		if len(os.Args) < 3 {
			usage()
		}
		tier := os.Getenv("VERIF_TIER")
		for i := 3; i < len(os.Args); i++ {
			if os.Args[i] == "--tier" && i+1 < len(os.Args) {
				tier = os.Args[i+1]
			}
		}
		if tier == "" {
			tier = "quick"
		}
		os.Exit(cmdCheck(strings.ToUpper(os.Args[2]), tier))
	case "replay":
		if len(os.Args) < 3 {
			usage()
		}
		os.Exit(cmdReplay(os.Args[2]))
	case "selftest":
		if len(os.Args) < 3 {
			usage()
		}
		os.Exit(cmdSelftest(os.Args[2], os.Args[3:]))
	case "prepare":
		sc, err := prepare()
		if err != nil {
			fmt.Fprintln(os.Stderr, "prepare:", err)
			os.Exit(2)
		}
		fmt.Println(sc.dir)
	default:
		usage()
	}
}

func usage() {
	fmt.Fprintln(os.Stderr, "usage: verif check <ID> [--tier quick|thorough] | replay <file> | selftest instrument|determinism | prepare")
	os.Exit(2)
}

func envInt(name string, def int) int {
	if v := os.Getenv(name); v != "" {
		if n, err := strconv.Atoi(v); err == nil {
			return n
		}
	}
	return def
}

func envSeed() uint64 {
	if v := os.Getenv("VERIF_SEED"); v != "" {
		if n, err := strconv.ParseUint(v, 10, 64); err == nil {
			return n
		}
		if n, err := strconv.ParseInt(v, 10, 64); err == nil {
			return uint64(n)
		}
	}
	return 20260927
}

// verifDir is the root of the verification tree: the directory that holds
// bin/verif (so that a snapshot of /verif run elsewhere uses its own sources).
func verifDir() string {
	if d := os.Getenv("VERIF_DIR"); d != "" {
		return d
	}
	if exe, err := os.Executable(); err == nil {
		if r, err := filepath.EvalSymlinks(exe); err == nil {
			exe = r
		}
		d := filepath.Dir(filepath.Dir(exe))
		if _, err := os.Stat(filepath.Join(d, "harness")); err == nil {
			return d
		}
	}
	return "/verif"
}

func repoDir() string {
	if d := os.Getenv("VERIF_REPO"); d != "" {
		return d
	}
	return "/repo"
}

func evidenceDir() string {
	if d := os.Getenv("VERIF_EVIDENCE_DIR"); d != "" {
		return d
	}
	return verifDir() + "/evidence"
}

func replayDir() string {
	if d := os.Getenv("VERIF_REPLAY_DIR"); d != "" {
		return d
	}
	return verifDir() + "/replays"
}
