package main

import (
	"encoding/json"
	"os"
	"path/filepath"
	"sort"
	"strings"
	"time"
)

type evidence struct {
	prop, tier  string
	seed        uint64
	pi          propInfo
	evaluations int
	fps         map[string]bool
	counters    map[string]int64
	samples     []json.RawMessage
	steps       []int64
	violations  int
	knownHits   int
	knownLines  []string
	cov         map[string]interface{}
	modes       map[string]int
	classes     map[string]int
}

func newEvidence(prop, tier string, seed uint64, pi propInfo) *evidence {
	return &evidence{prop: prop, tier: tier, seed: seed, pi: pi, fps: map[string]bool{}, counters: map[string]int64{},
		cov: map[string]interface{}{}, modes: map[string]int{}, classes: map[string]int{}}
}

func (e *evidence) add(ix *indexed) {
	r := ix.result
	if r == nil {
		return
	}
	e.evaluations++
	if r.Nontrivial && r.Fingerprint != "" {
		e.fps[r.Fingerprint] = true
	}
	for k, v := range r.Counters {
		e.counters[k] += v
	}
	e.steps = append(e.steps, r.Steps)
	if len(e.samples) < 5 && len(r.Sample) > 0 && (e.evaluations%37 == 1 || len(e.samples) == 0) {
		e.samples = append(e.samples, r.Sample)
	}
	if r.Status == "violation" {
		e.classes[r.Class]++
	}
}

// reach asks one worker to run a slice of the batch again and report which
// anchored functions were hit (reach probes are per process, so this is a
// sample: the first chunk of the batch).
func (e *evidence) reach(sc *scratch, b *batch) {
	w, err := startWorker(sc)
	if err != nil {
		return
	}
	defer w.close()
	n := 40
	w.send(request{Op: "run", Prop: b.prop, Base: b.base, From: 0, To: n, Tier: b.tier, Known: b.known})
	for {
		ev, ok, stalled := w.next(opTimeout())
		if !ok || stalled {
			return
		}
		if ev.Ev == "done" {
			break
		}
	}
	w.send(request{Op: "reach"})
	ev, ok, stalled := w.next(opTimeout())
	if !ok || stalled || ev.Ev != "reach" {
		return
	}
	type kv struct {
		k string
		v uint32
	}
	var hits []kv
	for k, v := range ev.Hits {
		hits = append(hits, kv{k, v})
	}
	sort.Slice(hits, func(i, j int) bool { return hits[i].k < hits[j].k })
	byPkg := map[string]int{}
	for _, h := range hits {
		byPkg[strings.SplitN(h.k, ".", 2)[0]]++
	}
	e.cov["reach_functions_hit_first_40_runs"] = len(hits)
	e.cov["reach_functions_by_package"] = byPkg
	var unreached []string
	probes := map[string]uint32{}
	for _, a := range anchors[e.prop] {
		n := ev.Hits[a]
		probes[a] = n
		if n == 0 {
			unreached = append(unreached, a)
		}
	}
	e.cov["reach_probes"] = probes
	e.cov["unreached"] = unreached
}

func (e *evidence) write(sc *scratch, wall time.Duration) error {
	cov := e.cov
	cov["evaluations"] = e.evaluations
	cov["distinct_nontrivial"] = len(e.fps)
	cov["rule"] = e.pi.rule
	if len(e.samples) == 0 {
		e.samples = append(e.samples, json.RawMessage(`"no sample recorded"`))
	}
	cov["samples"] = e.samples
	cov["counters"] = e.counters
	var total int64
	sort.Slice(e.steps, func(i, j int) bool { return e.steps[i] < e.steps[j] })
	for _, s := range e.steps {
		total += s
	}
	stepStats := map[string]int64{"total": total}
	if n := len(e.steps); n > 0 {
		stepStats["median_per_run"] = e.steps[n/2]
		stepStats["max_per_run"] = e.steps[n-1]
	}
	cov["simulated_steps"] = stepStats
	cov["simulated_time"] = "the library reads no clock; progress is measured in instrumented steps (function entries and loop iterations); statement-boundary points are scheduling points only"
	if wall > 0 {
		cov["runs_per_hour"] = int(float64(e.evaluations) / wall.Hours())
	}
	cov["violation_classes"] = e.classes
	if e.knownLines == nil {
		e.knownLines = []string{}
	}
	cov["known_findings_reported"] = e.knownLines
	cov["known_finding_hits"] = e.knownHits
	cov["instrumentation"] = map[string]int{"functions": sc.sites.Funcs, "loops": sc.sites.Loops, "map_ranges": sc.sites.MapRanges,
		"s_points": sc.sites.SPoints, "make_guards": sc.sites.Makes, "files": sc.sites.Files,
		"statement_points": sc.sites.Stmts, "sync_critical_sections": sc.sites.SyncShims, "sync_or_channel_uses_not_modelled": len(sc.sites.Unsupported)}
	cov["components"] = map[string]interface{}{
		"real":      []string{"every tabula package, from /repo's current working tree (instrumented copy)", "Go standard library", "golang.org/x/net/html", "golang.org/x/text"},
		"simulated": e.pi.simulated,
		"stubbed":   []string{"OCR (the repository's own ocr_stub.go; the ocr build tag needs cgo and tesseract)"},
	}
	doc := map[string]interface{}{
		"property_id": e.prop,
		"tier":        e.tier,
		"seed":        int64(e.seed & 0x7fffffffffffffff),
		"level":       e.pi.level,
		"coverage":    cov,
		"assumptions": e.pi.assume,
		"wall_s":      wall.Seconds(),
		"violations":  e.violations,
	}
	b, err := json.MarshalIndent(doc, "", " ")
	if err != nil {
		return err
	}
	dir := evidenceDir()
	os.MkdirAll(dir, 0o755)
	return os.WriteFile(filepath.Join(dir, e.prop+".json"), b, 0o644)
}

// anchors: functions named in each claimed property's anchors, used as reach probes.
var anchors = map[string][]string{}
